#!/usr/bin/env python3
"""Creates the combined self-test mutant /verif/mutants/M1.diff from a list of exact-text edits against /repo's current tree
(both-ways test of the rules: each edit breaks one named rule instance).  /repo is restored afterwards."""
import subprocess, sys, os
R = '/repo/'
EDITS = [
 # (id, file, old, new, nth occurrence (0-based) or None for unique)
 ('C03-ord', 'iceoryx2-bb/lock-free/src/spsc/index_queue.rs', '.store(write_position + 1, Ordering::Release);', '.store(write_position + 1, Ordering::Relaxed);', None),
 ('C03-poly', 'iceoryx2-cal/src/zero_copy_connection/common.rs', 'self.buffer_size + self.max_borrowed_samples_per_channel + 1', 'self.buffer_size + self.max_borrowed_samples_per_channel', None),
 ('C04-mode', 'iceoryx2/src/service/dynamic_config/publish_subscribe.rs', "                ReleaseMode::Default,\n            );\n\n            self.subscribers.recover(", "                ReleaseMode::LockIfLastIndex,\n            );\n\n            self.subscribers.recover(", None),
 ('C06-mode', 'iceoryx2/src/service/dynamic_config/mod.rs', 'self.nodes.remove(handle, ReleaseMode::LockIfLastIndex)', 'self.nodes.remove(handle, ReleaseMode::Default)', None),
 ('C07-order', 'iceoryx2-bb/posix/src/process_state.rs', 'for file in [&mut self.state, &mut self.owner_lock, &mut self.context] {', 'for file in [&mut self.context, &mut self.state, &mut self.owner_lock] {', None),
 ('C08-poly', 'iceoryx2/src/service/static_config/publish_subscribe.rs', '            + self.history_size\n            + publisher_max_loaned_data', '            + publisher_max_loaned_data', None),
 ('C09-aba', 'iceoryx2-bb/lock-free/src/mpmc/unique_index_set.rs', 'aba: old.aba.wrapping_add(1),', 'aba: old.aba,', 0),
 ('C11-close', 'iceoryx2/src/pending_response.rs', '        });\n        self.close();\n    }', '        });\n    }', None),
 ('C13-role', 'iceoryx2-cal/src/zero_copy_connection/common.rs', 'cleanup_shared_memory(&self.storage, State::Receiver);', 'cleanup_shared_memory(&self.storage, State::Sender);', None),
 ('C14-bound', 'iceoryx2-bb/container/src/vector/relocatable_vec.rs', 'unsafe impl<T: ZeroCopySend> ZeroCopySend for RelocatableVec<T> {}', 'unsafe impl<T> ZeroCopySend for RelocatableVec<T> {}', None),
 ('C15-shift', 'iceoryx2-cal/src/shm_allocator/pointer_offset.rs', '(self.0 >> (SegmentIdUnderlyingType::BITS)) as usize', '(self.0 >> (SegmentIdUnderlyingType::BITS - 1)) as usize', None),
 ('C16-drop', 'iceoryx2-bb/container/src/vector/mod.rs', "        for idx in (new_len..len).rev() {\n            unsafe { data[idx].assume_init_drop() };\n        }\n", "", None),
 ('C17-release', 'iceoryx2/src/port/publisher.rs', '            .release_publisher_handle(self.dynamic_publisher_handle)', '            .number_of_publishers();', None),
 ('C18-dup', 'iceoryx2-ffi/c/src/api/publisher.rs', 'LoanError::ExceedsMaxLoanSize => iox2_loan_error_e::EXCEEDS_MAX_LOAN_SIZE,', 'LoanError::ExceedsMaxLoanSize => iox2_loan_error_e::EXCEEDS_MAX_LOANED_SAMPLES,', None),
 ('C19-slash', 'iceoryx2-bb/system-types/src/file_name.rs', "            b'/' => return true,\n", "", None),
 ('C20-detach', 'iceoryx2/src/waitset.rs', '        }\n        self.waitset.detach();\n    }', '        }\n    }', None),
 ('C02-last', 'iceoryx2/src/port/details/sender.rs', 'if self.untrack_chunk(offset) == 1 {', 'if self.untrack_chunk(offset) == 0 {', None),
 ('C12-ord', 'iceoryx2-bb/lock-free/src/spmc/unrestricted_atomic.rs', '        self.mgmt.write_cell.fetch_add(1, Ordering::Release);', '        self.mgmt.write_cell.fetch_add(1, Ordering::Relaxed);', None),
 ('C10-ord', 'iceoryx2-bb/lock-free/src/mpmc/container.rs', "                        Ordering::AcqRel,\n                        Ordering::SeqCst,\n                    ) {\n                        Ok(_) => break,", "                        Ordering::AcqRel,\n                        Ordering::Relaxed,\n                    ) {\n                        Ok(_) => break,", None),
 ('C05-ord', 'iceoryx2-cal/src/event/common.rs', "                NOTIFICATION_STATE_NOTIFIED,\n                NOTIFICATION_STATE_IDLE,\n                Ordering::SeqCst,", "                NOTIFICATION_STATE_NOTIFIED,\n                NOTIFICATION_STATE_IDLE,\n                Ordering::AcqRel,", None),
 ('C01-hist', 'iceoryx2/src/port/publisher.rs', "        self.add_sample_to_history(chunk);\n        self.sender.deliver_offset(chunk, ChannelId::new(0))", "        let r = self.sender.deliver_offset(chunk, ChannelId::new(0));\n        self.add_sample_to_history(chunk);\n        r", None),
]
st = subprocess.run(['git', '-C', '/repo', 'status', '--porcelain'], capture_output=True, text=True).stdout.strip()
assert not st, 'repo dirty'
for (mid, f, old, new, nth) in EDITS:
    p = R + f
    t = open(p).read()
    c = t.count(old)
    assert c >= 1, (mid, 'pattern not found')
    if nth is None:
        assert c == 1, (mid, 'pattern not unique: %d' % c)
        t = t.replace(old, new)
    else:
        i = -1
        for _ in range(nth + 1):
            i = t.index(old, i + 1)
        t = t[:i] + new + t[i + len(old):]
    open(p, 'w').write(t)
d = subprocess.run(['git', '-C', '/repo', 'diff'], capture_output=True, text=True).stdout
open('/verif/mutants/M1.diff', 'w').write(d)
subprocess.run(['git', '-C', '/repo', 'checkout', '--', '.'])
print('wrote /verif/mutants/M1.diff with %d edits' % len(EDITS))
