#!/usr/bin/env python3
"""confirm_union.py <seed> <seed> ... : applies the patches of several seeded changes (different sites) TOGETHER in /tmp/verify_wt and
runs the pinned baseline suite once.  If every stable test passes with the union applied, none of the changes is detected by the
existing tests (each was additionally run against the touched packages' tests on its own by its author).  Writes suite_union into
each <dir>/confirm_suite.json."""
import subprocess, sys, os, json, re, time
seeds = sys.argv[1:]
WT = '/tmp/verify_wt'
ENV = dict(os.environ, CARGO_NET_OFFLINE='true', CARGO_TARGET_DIR='/tmp/verify_tgt')


def sh(cmd, **kw):
    return subprocess.run(cmd, shell=True, cwd=WT, env=ENV, stdout=subprocess.PIPE, stderr=subprocess.STDOUT, text=True, **kw)


sh('git checkout -- . && git clean -fdq')
applied = []
for s in seeds:
    r = sh('git apply /tmp/seedout/%s/patch.diff' % s)
    if r.returncode == 0:
        applied.append(s)
    else:
        print('SKIP %s: does not apply on top of %s: %s' % (s, applied, r.stdout[-200:]))
t0 = time.time()
r = sh('cargo nextest run --workspace --no-fail-fast --tool-config-file pb:/w/lib/nextest.toml --profile pb --test-threads 8 --offline --build-jobs 10')
log = r.stdout
b = json.load(open('/root/.vp/BASELINE.json'))
stable = set(b['stable_pass'])
names = {}
parts = {}
for m in re.finditer(r'^\s*(PASS|FAIL|SIGABRT|SIGSEGV|TIMEOUT|LEAK)\s+\[[^\]]*\]\s+\(\s*\d+/\d+\)\s+(\S+)\s+(.*)$', log, re.M):
    names['%s::%s' % (m.group(2), m.group(3).strip())] = m.group(1)
    parts['%s::%s' % (m.group(2), m.group(3).strip())] = (m.group(2), m.group(3).strip())
# a stable test that failed in the bulk run (the machine may be loaded: several tests have a 10 s watchdog) is re-run alone, up to 3 times;
# it counts as failing only if it fails every time
retried = {}
for n in sorted(n for n, st in names.items() if st != 'PASS' and n in stable):
    b_, t_ = parts[n]
    ok = False
    for k in range(3):
        rr = sh("cargo nextest run --workspace --offline --no-fail-fast --tool-config-file pb:/w/lib/nextest.toml --profile pb -E 'binary_id(=%s) & test(=%s)'" % (b_, t_))
        if re.search(r'Summary.*\b1 passed', rr.stdout) and not re.search(r'\d+ failed', rr.stdout.split('Summary')[-1]):
            ok = True
            break
    retried[n] = 'passes alone (attempt %d)' % (k + 1) if ok else 'fails alone 3x'
    if ok:
        names[n] = 'PASS'
summ = re.findall(r'Summary.*', log)
res = {'union': applied, 'suite_summary': summ[-1] if summ else 'NO SUMMARY ' + log[-600:], 'builds': bool(summ),
       'stable_failing': sorted(n for n, s in names.items() if s != 'PASS' and n in stable), 'retried_alone': retried, 'wall_s': round(time.time() - t0), 'at': time.strftime('%F %T')}
for s in applied:
    json.dump(res, open('/tmp/seedout/%s/confirm_suite.json' % s, 'w'), indent=1)
open('/tmp/seedout/union_%s.log' % '_'.join(applied)[:80], 'w').write(log[-300000:])
sh('git checkout -- . && git clean -fdq')
print(json.dumps(res, indent=1))
