#!/usr/bin/env python3
"""confirm_seed.py <seedout-dir-name> : confirms a seeded change in the scratch worktree /tmp/verify_wt (never /repo):
 (1) patch applies and the workspace builds, (2) the pinned baseline suite still passes with it (stable tests),
 (3) the demonstration fails with the change and passes without.  Writes <dir>/confirm.json."""
import subprocess, sys, os, json, re, time
name = sys.argv[1]
D = '/tmp/seedout/' + name
WT = '/tmp/verify_wt'
ENV = dict(os.environ, CARGO_NET_OFFLINE='true', CARGO_TARGET_DIR='/tmp/verify_tgt')
skip_suite = '--skip-suite' in sys.argv


def sh(cmd, **kw):
    return subprocess.run(cmd, shell=True, cwd=WT, env=ENV, stdout=subprocess.PIPE, stderr=subprocess.STDOUT, text=True, **kw)


def clean():
    sh('git checkout -- . && git clean -fdq')


res = {'seed': name, 'at': time.strftime('%F %T')}
clean()
r = sh('git apply %s/patch.diff' % D)
res['applies'] = r.returncode == 0
if not res['applies']:
    res['error'] = r.stdout[-500:]
    json.dump(res, open(D + '/confirm.json', 'w'), indent=1); print(json.dumps(res)); sys.exit(1)
if not skip_suite:
    t0 = time.time()
    r = sh('cargo nextest run --workspace --no-fail-fast --tool-config-file pb:/w/lib/nextest.toml --profile pb --test-threads 8 --offline --build-jobs 8')
    log = r.stdout
    open(D + '/suite_with_patch.log', 'w').write(log[-200000:])
    b = json.load(open('/root/.vp/BASELINE.json'))
    stable = set(b['stable_pass'])
    names = {}
    for m in re.finditer(r'^\s*(PASS|FAIL|SIGABRT|SIGSEGV|TIMEOUT|LEAK)\s+\[[^\]]*\]\s+\(\s*\d+/\d+\)\s+(\S+)\s+(.*)$', log, re.M):
        names['%s::%s' % (m.group(2), m.group(3).strip())] = m.group(1)
    summ = re.findall(r'Summary.*', log)
    res['suite_summary'] = summ[-1] if summ else 'NO SUMMARY (build failure?) ' + log[-400:]
    res['builds'] = bool(summ)
    res['stable_failing'] = sorted(n for n, s in names.items() if s != 'PASS' and n in stable)
    res['suite_wall_s'] = round(time.time() - t0)
demo = D + '/run_demo.sh'
if os.path.exists(demo):
    r = sh('bash %s %s' % (demo, WT), timeout=3000)
    res['demo_with_patch_rc'] = r.returncode
    res['demo_with_patch_tail'] = r.stdout[-600:]
    clean()
    r = sh('bash %s %s' % (demo, WT), timeout=3000)
    res['demo_without_patch_rc'] = r.returncode
    res['demo_without_patch_tail'] = r.stdout[-300:]
clean()
res['confirmed'] = bool(res.get('applies') and (skip_suite or (res.get('builds') and not res.get('stable_failing'))) and res.get('demo_with_patch_rc', 0) != 0 and res.get('demo_without_patch_rc', 1) == 0)
json.dump(res, open(D + '/confirm.json', 'w'), indent=1)
print(json.dumps({k: v for k, v in res.items() if 'tail' not in k}, indent=1))
