#!/usr/bin/env python3
"""try_patch.py <patch.diff> [property ids...]: applies the patch to /repo, runs the quick checks, prints which fire, reverts.
Used only for testing the machinery both ways (never registered in MANIFEST)."""
import subprocess, sys, os, json, re
V = os.path.dirname(os.path.dirname(os.path.abspath(__file__)))
patch = os.path.abspath(sys.argv[1])
ids = sys.argv[2:] or [json.loads(l)['id'] for l in open(os.path.join(V, 'properties.jsonl'))]
st = subprocess.run(['git', '-C', '/repo', 'status', '--porcelain'], capture_output=True, text=True).stdout.strip()
if st:
    print('refusing: /repo working tree is not clean:\n' + st); sys.exit(2)
r = subprocess.run(['git', '-C', '/repo', 'apply', patch], capture_output=True, text=True)
if r.returncode != 0:
    print('patch does not apply:', r.stderr); sys.exit(2)
out = {}
try:
    for pid in ids:
        p = subprocess.run([os.path.join(V, 'check'), pid], capture_output=True, text=True, cwd=V)
        fails = [l.strip() for l in p.stdout.splitlines() if l.strip().startswith('FAIL')]
        out[pid] = (p.returncode, fails)
        print('%s rc=%d %s' % (pid, p.returncode, ('\n    ' + '\n    '.join(f[:260] for f in fails)) if fails else ''))
        if p.returncode not in (0, 1):
            print(p.stdout[-1500:], p.stderr[-1500:])
finally:
    subprocess.run(['git', '-C', '/repo', 'checkout', '--', '.'])
    subprocess.run(['git', '-C', '/repo', 'clean', '-fdq', '--', 'iceoryx2', 'iceoryx2-bb', 'iceoryx2-cal', 'iceoryx2-ffi', 'iceoryx2-pal'])
fired = [k for k, v in out.items() if v[0] == 1]
print('FIRED:', fired)
