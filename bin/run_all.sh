#!/bin/bash
# Runs every quick (or with --thorough: thorough) check; prints one line per property; exit 1 if any fails.
cd "$(dirname "$0")/.."
rc=0
for p in $(python3 -c "import json;print(' '.join(json.loads(l)['id'] for l in open('properties.jsonl')))"); do
  out=$(./check $p "$@" 2>&1); r=$?
  echo "$out" | grep -E "^$p:|VIOLATION|KNOWN-FINDING" | cut -c1-220
  [ $r -ne 0 ] && rc=1
done
exit $rc
