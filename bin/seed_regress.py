#!/usr/bin/env python3
"""seed_regress.py [seed ...]: regression of the rules against the kept seeded changes (seeded/<id>/patch.diff).  Seeds are grouped greedily into
sets whose patches apply together on /repo's HEAD; each group is applied to /repo (git apply), the checks of the properties named in the
seeds' meta.json `caught_by` are run, and the patch is reverted (git checkout).  A seed counts as caught when a check that its meta.json
names exits 1 and reports a FAIL line mentioning one of the files/functions of the seed's patch.  Used only to test the machinery."""
import subprocess, sys, os, json, re, glob
V = os.path.dirname(os.path.dirname(os.path.abspath(__file__)))
seeds = sys.argv[1:] or sorted(os.path.basename(os.path.dirname(p)) for p in glob.glob(os.path.join(V, 'seeded', '*', 'patch.diff')))


def git(*a):
    return subprocess.run(['git', '-C', '/repo'] + list(a), capture_output=True, text=True)


if git('status', '--porcelain').stdout.strip():
    print('refusing: /repo not clean'); sys.exit(2)
groups = []
for s in seeds:
    p = os.path.join(V, 'seeded', s, 'patch.diff')
    placed = False
    for g in groups:
        # try to apply on top of the group
        for q in g:
            git('apply', os.path.join(V, 'seeded', q, 'patch.diff'))
        ok = git('apply', '--check', p).returncode == 0
        git('checkout', '--', '.')
        if ok:
            g.append(s); placed = True; break
    if not placed:
        if git('apply', '--check', p).returncode != 0:
            print('SKIP %s: patch does not apply to HEAD' % s); continue
        groups.append([s])
print('groups:', groups)
res = {}
for g in groups:
    props = set()
    meta = {}
    for s in g:
        m = json.load(open(os.path.join(V, 'seeded', s, 'meta.json')))
        meta[s] = m
        for c in m['caught_by']:
            for x in re.findall(r'C\d\d', c.split(':')[0]):
                props.add(x)
        git('apply', os.path.join(V, 'seeded', s, 'patch.diff'))
    out = {}
    try:
        for pid in sorted(props):
            r = subprocess.run([os.path.join(V, 'check'), pid], capture_output=True, text=True, cwd=V)
            out[pid] = (r.returncode, [l.strip() for l in r.stdout.splitlines() if l.strip().startswith('FAIL')])
    finally:
        git('checkout', '--', '.')
    for s in g:
        patch = open(os.path.join(V, 'seeded', s, 'patch.diff')).read()
        files = set(re.findall(r'^\+\+\+ b/(\S+)', patch, re.M))
        hit = []
        for pid, (rc, fails) in out.items():
            for f in fails:
                if any(fl in f for fl in files):
                    hit.append('%s: %s' % (pid, f[5:120]))
        if not hit:
            # the FAIL line may name another file (e.g. the creating site of a created-vs-removed agreement rule): match the functions of the patch
            fnames = set(re.findall(r'fn (\w+)', ' '.join(re.findall(r'^@@.*@@(.*)$', patch, re.M)) + ' ' + ' '.join(re.findall(r'^[-+].*fn (\w+)', patch, re.M))))
            for pid, (rc, fails) in out.items():
                for f in fails:
                    if any(('::%s::' % fn_) in f for fn_ in fnames):
                        hit.append('%s: %s' % (pid, f[5:120]))
        res[s] = hit
        print('%s %s %s' % (s, 'CAUGHT' if hit else 'MISSED', hit[:2]))
missed = [s for s, h in res.items() if not h]
print('missed:', missed)
json.dump(res, open('/tmp/seed_regress.json', 'w'), indent=1)
sys.exit(1 if missed else 0)
