#!/bin/bash
# usage: extract.sh <out-dir> <target-dir> [extra cargo args...]
# Runs the iox2-facts driver as RUSTC_WORKSPACE_WRAPPER over the product crates of /repo.
set -euo pipefail
OUT="$1"; TGT="$2"; shift 2
REPO="${IOX2_REPO:-/repo}"
DRV=/verif/facts/target/release/iox2-facts
[ -x "$DRV" ] || { echo "driver not built: run setup" >&2; exit 2; }
mkdir -p "$OUT" "$TGT"
SYSROOT=$(rustc +nightly --print sysroot)
export LD_LIBRARY_PATH="$SYSROOT/lib"
export RUSTFLAGS="-Zmir-opt-level=0 -Awarnings -C debug-assertions=off -C overflow-checks=off"
export RUSTC_WORKSPACE_WRAPPER="$DRV"
export CARGO_TARGET_DIR="$TGT"
export IOX2_FACTS_OUT="$OUT"
export IOX2_FACTS_CRATES="iceoryx2_pal_concurrency_sync,iceoryx2_bb_elementary_traits,iceoryx2_bb_elementary,iceoryx2_bb_concurrency,iceoryx2_bb_lock_free,iceoryx2_bb_container,iceoryx2_bb_memory,iceoryx2_bb_system_types,iceoryx2_bb_posix,iceoryx2_bb_linux,iceoryx2_bb_threadsafe,iceoryx2_cal,iceoryx2,iceoryx2_ffi_c"
export CARGO_NET_OFFLINE=true
cd "$REPO"
PKGS="${IOX2_PKGS:--p iceoryx2-ffi-c -p iceoryx2-bb-threadsafe}"
cargo +nightly check --offline $PKGS --lib "$@"
