#!/usr/bin/env python3
"""refactor_regress.py [n ...]: replays the behaviour-preserving refactoring patches kept under /verif/refactors/<n>/patch.diff (written by
independent sub-agents acting as maintainers, each confirmed to build and to pass the touched crates' tests) against /repo and runs all 20
quick checks on each: every check must stay silent (no alarm on code that still has the property).  Applies with `git -C /repo apply`,
reverts with `git -C /repo checkout -- .`; refuses to run on a dirty /repo.  Testing tool, not registered in MANIFEST.json."""
import subprocess, sys, os
V = os.path.dirname(os.path.dirname(os.path.abspath(__file__)))
ns = sys.argv[1:] or sorted(os.listdir(os.path.join(V, 'refactors')), key=lambda x: int(x))
bad = 0
for n in ns:
    p = os.path.join(V, 'refactors', n, 'patch.diff')
    r = subprocess.run([sys.executable, os.path.join(V, 'bin', 'try_patch.py'), p], capture_output=True, text=True)
    fired = [l for l in r.stdout.splitlines() if l.startswith('FIRED') or 'FAIL' in l or 'refusing' in l or 'does not apply' in l]
    print('== refactoring patch %s: %s' % (n, ' '.join(x.strip()[:200] for x in fired)))
    if not any(l.strip() == 'FIRED: []' for l in fired):
        bad += 1
print('patches with an alarm (or not applicable to HEAD): %d' % bad)
sys.exit(1 if bad else 0)
