#!/usr/bin/env python3
"""Regenerates the table of DESIGN.md section 9 from seeded/*/meta.json (between the BEGIN/END markers)."""
import json, os, glob, re
V = os.path.dirname(os.path.dirname(os.path.abspath(__file__)))
rows = []
for m in sorted(glob.glob(os.path.join(V, 'seeded', '*', 'meta.json'))):
    d = json.load(open(m))
    w = d['what_was_run']
    patch = open(os.path.join(os.path.dirname(m), 'patch.diff')).read()
    files = sorted(set(re.findall(r'^\+\+\+ b/(\S+)', patch, re.M)))
    site = ', '.join(f.replace('iceoryx2-', '').rsplit('/src/', 1)[-1] if '/src/' in f else f for f in files)
    caught = '; '.join(d['caught_by']) or '**missed**'
    mb = d.get('missed_before_strengthening') or ''
    rows.append('| %s | %s | %s | %s | demo %s/%s, suite ok | %s%s |' % (
        d['seed'], d['breaks_property'], site, d['needs_to_manifest'].replace('|', '/'),
        w.get('demonstration_with_change_rc'), w.get('demonstration_without_change_rc'), caught.replace('|', '/'),
        (' -- *' + mb.replace('|', '/') + '*') if mb else ''))
hdr = ['| seed | property | changed file(s) | needs, to manifest | confirmed (demo rc with/without change; pinned suite with the change) | caught by |', '|---|---|---|---|---|---|']
txt = '\n'.join(hdr + rows)
p = os.path.join(V, 'DESIGN.md')
s = open(p).read()
b, e = '<!-- BEGIN seeded table -->', '<!-- END seeded table -->'
if b not in s:
    raise SystemExit('markers missing in DESIGN.md')
s = s[:s.index(b) + len(b)] + '\n' + txt + '\n' + s[s.index(e):]
missed = sum(1 for m in glob.glob(os.path.join(V, 'seeded', '*', 'meta.json')) if json.load(open(m)).get('missed_before_strengthening'))
stats = 'Kept seeded changes: **%d** (three rounds: up to four per property in rounds 1-2, one more for sixteen properties in round 3); **%d** of them were missed by the rule set as it stood when the change arrived (or were caught only by a fail-closed anchor / floor or only under a neighbouring property) and led to a new or sharper rule; **all %d** are caught by the current checks (`bin/seed_regress.py` replays every kept patch against /repo and the checks named in its meta.json).' % (len(rows), missed, len(rows))
b2, e2 = '<!-- BEGIN seeded stats -->', '<!-- END seeded stats -->'
if b2 in s:
    s = s[:s.index(b2) + len(b2)] + '\n' + stats + '\n' + s[s.index(e2):]
open(p, 'w').write(s)
print('rows', len(rows), 'missed-before', missed)
