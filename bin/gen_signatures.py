#!/usr/bin/env python3
"""gen_signatures.py: freezes the parameter lists (names, declared types) of the product functions of /repo's current tree into
rules/signatures.json.  rules/core.py uses the table to present the arguments of every call site in the parameter order the rules were
written against, so that reordering (or reordering + renaming) the parameters of a private function does not change a verdict.
Run on a clean /repo after a reviewed signature change; never run by the checks."""
import json, os, sys, subprocess
V = os.path.dirname(os.path.dirname(os.path.abspath(__file__)))
sys.path.insert(0, V)
from rules import core
facts_dir = sys.argv[1] if len(sys.argv) > 1 else None
if facts_dir is None:
    print('usage: gen_signatures.py <facts-default dir of the clean tree> [facts dirs of the other cfg universes ...]'); sys.exit(2)
F = core.Facts(facts_dir, canonical_args=False)
ids = set()
for d in sys.argv[1:]:
    G = F if d == facts_dir else core.Facts(d, canonical_args=False)
    ids |= {f.id for f in G.fn_list if f.kind != 'closure' and f.crate.startswith('iceoryx2')}
with open(os.path.join(V, 'rules', 'function_ids.json'), 'w') as fh:
    json.dump(sorted(ids), fh, separators=(',', ':'))
print('%d function ids (the set of product functions the rules were written against; anything else is a new helper and is inlined)' % len(ids))
out = {}
for f in F.fn_list:
    if f.kind == 'closure' or f.nargs < 2 or not f.crate.startswith('iceoryx2'):
        continue
    if f.id in out:
        continue
    out[f.id] = {'names': [f.local_name(i) for i in range(1, f.nargs + 1)], 'tys': [str(f.locals[i]) for i in range(1, f.nargs + 1)]}
with open(os.path.join(V, 'rules', 'signatures.json'), 'w') as fh:
    json.dump(out, fh, separators=(',', ':'), sort_keys=True)
print('%d signatures' % len(out))
