#!/usr/bin/env python3
"""Regenerates /verif/MANIFEST.json from the rule modules' metadata (rules/Cxx.py) and NOT_APPLICABLE below."""
import json, os, sys, importlib
V = os.path.dirname(os.path.dirname(os.path.abspath(__file__)))
sys.path.insert(0, V)
props = [json.loads(l) for l in open(os.path.join(V, 'properties.jsonl'))]
NOT_APPLICABLE = {}
na_file = os.path.join(V, 'not_applicable.json')
if os.path.exists(na_file):
    NOT_APPLICABLE = json.load(open(na_file))
checks, na = [], []
for p in props:
    pid = p['id']
    if os.path.exists(os.path.join(V, 'rules', pid + '.py')) and pid not in NOT_APPLICABLE:
        m = importlib.import_module('rules.' + pid)
        checks.append({
            'property_id': pid,
            'quick_cmd': './check %s' % pid,
            'thorough_cmd': './check %s --thorough' % pid,
            'evidence_file': 'evidence/%s.json' % pid,
            'replay_cmd_template': './check %s --replay {path}' % pid,
            'engine': 'iox2-static',
            'level_claimed': {'category': 'other', 'text': m.LEVEL_TEXT, 'design_ref': 'DESIGN.md section 4, ' + pid},
            'level_note': m.LEVEL_NOTE,
            'technique': m.TECHNIQUE,
        })
    else:
        na.append({'property_id': pid, 'reason': NOT_APPLICABLE.get(pid, 'static rule table not built yet in this round; no verdict is claimed')})
man = {
    'version': 1,
    'setup_cmd': 'bash setup.sh',
    'hooks': {
        'guard': 'eclipse_iceoryx_iceoryx2_verif',
        'enable': 'none needed: the static analyser reads MIR of the unmodified sources (no hooks, no instrumentation in /repo)',
        'baseline_off_cmd': 'cd /repo && cargo nextest run --workspace --no-fail-fast --test-threads 8 --offline || cargo test --workspace --no-fail-fast --offline',
        'source_commits': [],
        'add_only': True,
    },
    'engines': [
        {'name': 'iox2-static', 'path': 'check', 'serves_properties': [c['property_id'] for c in checks],
         'kind_free_text': 'static analysis: rustc_private MIR/type fact extractor (facts/) run as RUSTC_WORKSPACE_WRAPPER over /repo\'s current tree + Python rule tables (rules/) evaluating ORD/DOM/PDOM/ONLY-UNDER/NO-ERR-AFTER/CONST-ARG/FIELD-ORDER/POLY/SYM-EQ/TYPE-WALK/MATCH-MAP/SIBLINGS rules; compile-fail witnesses (witness/) for the type-level remainder'},
    ],
    'checks': checks,
    'not_applicable': na,
    'notes': 'All checks are static: no test, model checker, fuzzer or solver is run and no iceoryx2 code is executed. Facts are re-extracted whenever /repo\'s working tree hash changes. known_findings.json lists genuine defects by exact instance key.',
}
json.dump(man, open(os.path.join(V, 'MANIFEST.json'), 'w'), indent=1)
print('claimed:', [c['property_id'] for c in checks]); print('not_applicable:', [n['property_id'] for n in na])
