#!/usr/bin/env python3
"""keep_seed.py <seed> : copies a confirmed seeded change from /tmp/seedout/<seed> into /verif/seeded/<seed>/ (patch.diff, the
demonstration, notes) and writes meta.json from confirm_demo.json / confirm_suite.json plus the fields given on the command line:
  keep_seed.py C03a --needs "..." --caught "C03: ORD::..." [--missed-before "rule added/strengthened: ..."]"""
import sys, os, json, shutil, argparse
ap = argparse.ArgumentParser()
ap.add_argument('seed'); ap.add_argument('--needs', required=True); ap.add_argument('--caught', action='append', default=[])
ap.add_argument('--missed-before', default=''); ap.add_argument('--property', default=None)
a = ap.parse_args()
S = '/tmp/seedout/' + a.seed
D = '/verif/seeded/' + a.seed
os.makedirs(D, exist_ok=True)
for f in os.listdir(S):
    p = os.path.join(S, f)
    if f.startswith('suite_with') or f.endswith('.log') or f in ('confirm.out', 'confirm_demo.out'):
        continue
    if os.path.isdir(p):
        if os.path.getsize(p) < 10**7:
            shutil.copytree(p, os.path.join(D, f), dirs_exist_ok=True, ignore=shutil.ignore_patterns('target', 'Cargo.lock'))
    elif os.path.getsize(p) < 2 * 10**6:
        shutil.copy(p, D)
demo = json.load(open(S + '/confirm_demo.json')) if os.path.exists(S + '/confirm_demo.json') else {}
suite = json.load(open(S + '/confirm_suite.json')) if os.path.exists(S + '/confirm_suite.json') else {}
meta = {
    'seed': a.seed,
    'breaks_property': a.property or a.seed[:3],
    'needs_to_manifest': a.needs,
    'confirmed_in': '/tmp/verify_wt (scratch git worktree of /repo HEAD, removed afterwards)',
    'what_was_run': {
        'patch_applies': demo.get('applies'),
        'demonstration_with_change_rc': demo.get('demo_with_patch_rc'),
        'demonstration_without_change_rc': demo.get('demo_without_patch_rc'),
        'demonstration_with_change_tail': (demo.get('demo_with_patch_tail') or '')[-400:],
        'baseline_suite_with_change': suite.get('suite_summary'),
        'baseline_suite_applied_together_with': suite.get('union'),
        'baseline_stable_tests_failing_with_change': suite.get('stable_failing'),
        'baseline_tests_retried_alone': suite.get('retried_alone'),
        'commands': ['python3 /verif/bin/confirm_seed.py %s --skip-suite   # run_demo.sh with and without the change' % a.seed,
                     'python3 /verif/bin/confirm_union.py %s   # cargo nextest run --workspace ... (pinned baseline command) with the change(s) applied' % ' '.join(suite.get('union', [a.seed]))],
    },
    'caught_by': a.caught,
    'missed_before_strengthening': a.missed_before,
}
json.dump(meta, open(D + '/meta.json', 'w'), indent=1)
print('kept', D, 'demo rc with/without =', demo.get('demo_with_patch_rc'), demo.get('demo_without_patch_rc'), 'suite:', suite.get('suite_summary'), suite.get('stable_failing'))
