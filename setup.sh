#!/bin/bash
# Builds the verification framework offline from files on disk and warms the fact cache for /repo's current tree.
set -euo pipefail
cd "$(dirname "$0")"
export CARGO_NET_OFFLINE=true
(cd facts && cargo +nightly build --release --offline 2>&1 | tail -3)
test -x facts/target/release/iox2-facts
python3 - <<'PY'
import importlib.machinery, importlib.util, time
loader = importlib.machinery.SourceFileLoader('check', '/verif/check')
spec = importlib.util.spec_from_loader('check', loader); chk = importlib.util.module_from_spec(spec); loader.exec_module(chk)
t = time.time()
d, h, fresh, _ = chk.ensure_facts('default')
print('facts %s in %s (%s, %.1fs)' % (h, d, 'extracted' if fresh else 'cached', time.time() - t))
PY
# warm the compile-fail witness build (doc tests of /verif/witness against /repo)
cp /repo/Cargo.lock witness/Cargo.lock
CARGO_TARGET_DIR=/verif/.cache/witness-target cargo +nightly test --doc --offline --manifest-path witness/Cargo.toml 2>&1 | tail -3
