"""Core of the static rule engine (E2): loads the MIR facts written by iox2-facts,
provides CFG / dominance / provenance / site-selection primitives and the generic
rule kinds of DESIGN.md section 3.  Python stdlib only.
"""
import json, os, re, pickle, sys
from collections import defaultdict

PASS_THROUGH = (
    # callee def-path regexes whose result denotes (a view of) their first argument
    r'.* as core::ops::deref::Deref>::deref$',
    r'.* as core::ops::deref::DerefMut>::deref_mut$',
    r'^core::ops::deref::Deref::deref$',
    r'^core::ops::deref::DerefMut::deref_mut$',
    r'^core::cell::UnsafeCell::<.*>::get$',
    r'^iceoryx2_bb_concurrency::cell::UnsafeCell::<.*>::(get|get_mut)$',
    r'^core::cell::UnsafeCell::<.*>::get_mut$',
    r'^core::cell::UnsafeCell::<.*>::raw_get$',
    r'^core::mem::maybe_uninit::MaybeUninit::<.*>::(as_ptr|as_mut_ptr|assume_init_ref|assume_init_mut)$',
    r'^core::ptr::non_null::NonNull::<.*>::(as_ptr|as_ref|as_mut)$',
    r'^core::slice::<impl \[T\]>::(as_ptr|as_mut_ptr)$',
    r'^core::ptr::mut_ptr::<impl \*mut T>::(cast|cast_const|add|offset|byte_add|as_ref|as_mut)$',
    r'^core::ptr::const_ptr::<impl \*const T>::(cast|cast_mut|add|offset|byte_add|as_ref)$',
    r'.* as core::convert::AsRef<.*>>::as_ref$',
    r'.* as core::convert::AsMut<.*>>::as_mut$',
    r'.* as core::borrow::Borrow<.*>>::borrow$',
    r'.* as core::borrow::BorrowMut<.*>>::borrow_mut$',
    r'.* as core::clone::Clone>::clone$',
    r'^core::clone::Clone::clone$',
    r'^core::option::Option::<.*>::(as_ref|as_mut|unwrap|expect|unwrap_unchecked)$',
    r'^core::result::Result::<.*>::(as_ref|as_mut|unwrap|expect)$',
    r'^iceoryx2_bb_elementary::relocatable_pointer::RelocatablePointer::<.*>::as_ptr$',
    r'^iceoryx2_bb_elementary::relocatable_pointer::RelocatablePointer::<.*>::as_mut_ptr$',
    r'.* as iceoryx2_bb_elementary_traits::pointer::Pointer<.*>>::(as_ptr|as_mut_ptr)$',
    r'^iceoryx2_bb_elementary_traits::pointer::Pointer::(as_ptr|as_mut_ptr)$',
    r'^iceoryx2_bb_elementary::owning_pointer::OwningPointer::<.*>::(as_ptr|as_mut_ptr)$',
    r'^alloc::sync::Arc::<.*>::as_ptr$',
    r'^core::pin::Pin::<.*>::(get_ref|get_mut|as_ref|as_mut)$',
    r'^(core|iceoryx2_bb_concurrency)::cell::RefCell::<.*>::(borrow|borrow_mut|as_ptr|get_mut)$',
    r'^core::intrinsics::transmute$',
)
_PASS_RE = re.compile('|'.join('(?:%s)' % p for p in PASS_THROUGH))
# symbolic evaluation keeps pointer arithmetic visible
_SYM_PASS_RE = re.compile('|'.join('(?:%s)' % p.replace('cast|cast_const|add|offset|byte_add|as_ref|as_mut', 'cast|cast_const|as_ref|as_mut').replace('cast|cast_mut|add|offset|byte_add|as_ref', 'cast|cast_mut|as_ref') for p in PASS_THROUGH))

ATOMIC_RE = re.compile(r'^core::sync::atomic::Atomic::<(\w+)>::(load|store|swap|compare_exchange|compare_exchange_weak|fetch_add|fetch_sub|fetch_and|fetch_or|fetch_xor|fetch_nand|fetch_max|fetch_min|fetch_update)$')

ORD_ACQ = {'Acquire', 'AcqRel', 'SeqCst'}
ORD_REL = {'Release', 'AcqRel', 'SeqCst'}
ORD_SC = {'SeqCst'}
ORD_ANY = {'Relaxed', 'Acquire', 'Release', 'AcqRel', 'SeqCst'}

FOREIGN_ENUMS = {
    'core::option::Option': {0: 'None', 1: 'Some'},
    'core::result::Result': {0: 'Ok', 1: 'Err'},
    'core::ops::control_flow::ControlFlow': {0: 'Continue', 1: 'Break'},
    'core::cmp::Ordering': {-1: 'Less', 255: 'Less', 0: 'Equal', 1: 'Greater'},
}


class AnchorMissing(Exception):
    pass


class Site:
    """A program point: statement index inside a block, or the block's terminator."""
    __slots__ = ('fn', 'b', 'i', 'node')

    def __init__(self, fn, b, i, node):
        self.fn, self.b, self.i, self.node = fn, b, i, node

    @property
    def is_term(self):
        return self.i == 'T'

    @property
    def pos(self):
        return (self.b, 1 << 30 if self.i == 'T' else self.i)

    @property
    def line(self):
        n = self.node
        if self.i == 'T':
            ln = n[-1] if n[0] in ('call', 'switch', 'ret', 'drop', 'assert', 'tailcall') else None
        else:
            ln = n[-1]
        if isinstance(ln, list):
            return ln[0]
        return ln

    @property
    def macro(self):
        n = self.node
        ln = n[-1] if n else None
        if isinstance(ln, list):
            return ln[1]
        return None

    @property
    def where(self):
        return '%s:%s' % (self.fn.file, self.line)

    # ---- call terminator accessors
    @property
    def is_call(self):
        return self.i == 'T' and self.node[0] in ('call', 'tailcall')

    @property
    def callee(self):
        c = self.node[1]
        return c.get('d') if isinstance(c, dict) else None

    @property
    def callee_orig(self):
        c = self.node[1]
        return c.get('o') if isinstance(c, dict) else None

    @property
    def callee_full(self):
        c = self.node[1]
        return c.get('f') if isinstance(c, dict) else None

    @property
    def callee_kind(self):
        c = self.node[1]
        return c.get('k') if isinstance(c, dict) else None

    @property
    def callee_self(self):
        c = self.node[1]
        return c.get('s') if isinstance(c, dict) else None

    @property
    def args(self):
        return self.node[2]

    @property
    def dest(self):
        return self.node[3] if self.node[0] == 'call' else None

    @property
    def target(self):
        return self.node[4] if self.node[0] == 'call' else None

    def __repr__(self):
        if self.is_call:
            return '<call %s @bb%d %s>' % (self.callee or 'ptr', self.b, self.where)
        return '<site bb%d[%s] %s %s>' % (self.b, self.i, self.node[0], self.where)

    def key(self):
        return (id(self.fn), self.b, self.i)


class Prov:
    """Provenance of a value: root + access path."""
    __slots__ = ('root', 'path', 'via')

    def __init__(self, root, path=(), via=()):
        self.root = root      # ('arg', idx, name) | ('call', Site) | ('const', node) | ('agg', node, Site) | ('multi', local) | ('expr', node, Site) | ('upvar', name) | ('local', l)
        self.path = tuple(path)
        self.via = tuple(via)  # pass-through callees / casts traversed

    def render(self):
        r = self.root
        if r[0] == 'arg':
            base = r[2] or ('arg%d' % r[1])
        elif r[0] == 'upvar':
            base = r[1]
        elif r[0] == 'call':
            base = 'call(%s)' % short(r[1].callee or 'ptr')
        elif r[0] == 'const':
            n = r[1]
            base = 'const(%s)' % (n[1] if n[0] == 'k' else n[1])
        elif r[0] == 'agg':
            base = 'agg(%s)' % agg_name(r[1])
        elif r[0] == 'multi':
            base = 'multi(_%d)' % r[1]
        elif r[0] == 'var':
            base = r[1]
        elif r[0] == 'expr':
            base = 'expr(%s)' % r[1][0]
        else:
            base = '_%s' % (r[1],)
        s = base
        for p in self.path:
            if p == '*':
                continue
            s += p
        return s

    def __repr__(self):
        return self.render()


def short(path):
    """Strip generic args and leading crate path for compact rendering."""
    if path is None:
        return 'ptr'
    p = re.sub(r'<[^<>]*>', '', path)
    for _ in range(4):
        p = re.sub(r'<[^<>]*>', '', p)
    parts = [x for x in p.split('::') if x]
    return '::'.join(parts[-2:])


def strip_generics(path):
    """Remove generic argument lists (`Foo<T>`, `foo::<T>`) but keep qualified-self wrappers (`<X as Tr>::m`)."""
    out = []
    i = 0
    n = len(path)
    while i < n:
        ch = path[i]
        if ch == '<':
            prev = path[i - 1] if i > 0 else ''
            is_generic = prev.isalnum() or prev == '_' or (prev == ':' and i >= 2 and path[i - 2] == ':')
            if is_generic and path.startswith('<impl ', i):
                is_generic = False
            if is_generic:
                depth = 0
                j = i
                while j < n:
                    if path[j] == '<':
                        depth += 1
                    elif path[j] == '>' and path[j - 1] != '-':
                        depth -= 1
                        if depth == 0:
                            break
                    j += 1
                # drop a preceding `::` of a turbofish
                if out[-2:] == [':', ':']:
                    out = out[:-2]
                i = j + 1
                continue
        out.append(ch)
        i += 1
    return ''.join(out)


def agg_name(rv):
    k = rv[1]
    if k[0] == 'adt':
        return '%s::%s' % (k[1], k[2])
    return k[0]


class Fn:
    def __init__(self, crate, j):
        self.crate = crate
        self.j = j
        self.id = j['id']
        self.name = j['name']
        self.kind = j['kind']
        self.file = j['file']
        self.line = j['line']
        self.impl = j['impl']
        self.parent = j['parent']
        self.nargs = j['nargs']
        self.locals = j['locals']
        self.blocks = j['blocks']
        self._names = None
        self._defs = None
        self._dom = None
        self._pdom = None
        self._sites = None
        self._preds = None

    # ------------------------------------------------------------ basics
    def __repr__(self):
        return '<fn %s>' % self.id

    @property
    def names(self):
        if self._names is None:
            self._names = {}
            for name, place in self.j['names']:
                self._names[json.dumps(place)] = name
        return self._names

    def local_name(self, l):
        return self.names.get(json.dumps([l]))

    def term(self, b):
        return self.blocks[b]['t']

    def succ(self, b, unwind=False):
        t = self.blocks[b]['t']
        k = t[0]
        out = []
        if k == 'goto':
            out = [t[1]]
        elif k == 'switch':
            out = [x[1] for x in t[2]] + [t[3]]
        elif k == 'call':
            if t[4] is not None:
                out.append(t[4])
            if unwind and t[5] is not None:
                out.append(t[5])
        elif k == 'drop':
            out.append(t[2])
            if unwind and t[3] is not None:
                out.append(t[3])
        elif k == 'assert':
            out.append(t[3])
            if unwind and t[4] is not None:
                out.append(t[4])
        elif k == 'yield':
            out = [t[1]]
        elif k == 'asm':
            out = list(t[1])
        # dedupe, keep order
        seen = []
        for x in out:
            if x not in seen:
                seen.append(x)
        return seen

    def preds(self, unwind=False):
        key = bool(unwind)
        if self._preds is None:
            self._preds = {}
        if key not in self._preds:
            p = defaultdict(list)
            for b in range(len(self.blocks)):
                for s_ in self.succ(b, unwind):
                    p[s_].append(b)
            self._preds[key] = p
        return self._preds[key]

    def reachable(self, start=0, unwind=False, avoid=()):
        seen = set()
        st = [start]
        avoid = set(avoid)
        while st:
            b = st.pop()
            if b in seen or b in avoid:
                continue
            seen.add(b)
            st.extend(self.succ(b, unwind))
        return seen

    def ret_blocks(self):
        return [b for b in range(len(self.blocks)) if self.blocks[b]['t'][0] == 'ret']

    # ------------------------------------------------------------ sites
    @property
    def sites(self):
        if self._sites is None:
            ss = []
            for b, blk in enumerate(self.blocks):
                for i, st in enumerate(blk['s']):
                    ss.append(Site(self, b, i, st))
                ss.append(Site(self, b, 'T', blk['t']))
            self._sites = ss
        return self._sites

    def calls(self, pat=None, orig=None, pred=None):
        """All call sites whose resolved callee (or original trait item) matches the regex."""
        rx = re.compile(pat) if pat else None
        rxo = re.compile(orig) if orig else None
        out = []
        for s_ in self.sites:
            if not s_.is_call:
                continue
            c = s_.callee
            if c is None:
                if rx is None and rxo is None and (pred is None or pred(s_)):
                    out.append(s_)
                continue
            ok = True
            if rx is not None:
                ok = bool(rx.search(c)) or bool(rx.search(s_.callee_orig or ''))
            if ok and rxo is not None:
                ok = bool(rxo.search(s_.callee_orig or ''))
            if ok and pred is not None:
                ok = pred(s_)
            if ok:
                out.append(s_)
        return out

    def term_site(self, b):
        return Site(self, b, 'T', self.blocks[b]['t'])

    # ------------------------------------------------------------ defs / provenance
    @property
    def defs(self):
        """local -> list of ('assign', Site) | ('call', Site) for whole-local definitions;
        partial (projected) writes are recorded under key ('partial', local)."""
        if self._defs is None:
            d = defaultdict(list)
            for s_ in self.sites:
                n = s_.node
                if s_.i != 'T':
                    if n[0] == 'a':
                        pl = n[1]
                        if len(pl) == 1:
                            d[pl[0]].append(('assign', s_))
                        else:
                            d[('partial', pl[0])].append(('assign', s_))
                    elif n[0] == 'setdiscr':
                        d[('partial', n[1][0])].append(('setdiscr', s_))
                else:
                    if n[0] == 'call':
                        pl = n[3]
                        if len(pl) == 1:
                            d[pl[0]].append(('call', s_))
                        else:
                            d[('partial', pl[0])].append(('call', s_))
            self._defs = d
        return self._defs

    def prov_place(self, place, depth=0):
        local = place[0]
        proj = [p for p in place[1:]]
        # pattern-bound variables (`Some(state_file)`) are debug names of projected places
        if len(proj) >= 1 and self.kind != 'closure':
            for k in range(len(proj), 0, -1):
                nm = self.names.get(json.dumps([local] + proj[:k]))
                if nm:
                    return Prov(('var', nm, local), proj[k:])
        base = self.prov_local(local, depth + 1)
        return Prov(base.root, list(base.path) + proj, base.via)

    def prov_operand(self, op, depth=0):
        if op[0] in ('c', 'm'):
            return self.prov_place(op[1], depth)
        return Prov(('const', op))

    def prov_local(self, local, depth=0):
        if depth > 60:
            return Prov(('local', local))
        # named upvar / argument
        if 1 <= local <= self.nargs and not self.defs.get(local):
            return Prov(('arg', local, self.local_name(local)))
        ds = self.defs.get(local, [])
        if len(ds) != 1:
            if 1 <= local <= self.nargs:
                return Prov(('arg', local, self.local_name(local)))
            if not ds:
                nm = self.local_name(local)
                return Prov(('var', nm, local)) if nm else Prov(('local', local))
            nm = self.local_name(local)
            if nm:
                return Prov(('var', nm, local))
            return Prov(('multi', local))
        kind, site = ds[0]
        n = site.node
        nm = self.local_name(local)
        if nm:
            p = self._prov_def(kind, site, depth)
            return Prov(p.root, p.path, p.via + (('var', nm, local),))
        return self._prov_def(kind, site, depth)

    def _prov_def(self, kind, site, depth):
        n = site.node
        if kind == 'assign':
            rv = n[2]
            k = rv[0]
            if k == 'use':
                return self.prov_operand(rv[1], depth + 1)
            if k == 'ref':
                return self.prov_place(rv[2], depth + 1)
            if k == 'rawptr':
                return self.prov_place(rv[2], depth + 1)
            if k == 'cast':
                p = self.prov_operand(rv[2], depth + 1)
                return Prov(p.root, p.path, p.via + (('cast', rv[1], rv[3], rv[4], site),))
            if k == 'agg':
                return Prov(('agg', rv, site))
            return Prov(('expr', rv, site))
        else:  # call
            c = site.callee
            if c is not None and _PASS_RE.search(c) and site.args:
                p = self.prov_operand(site.args[0], depth + 1)
                return Prov(p.root, p.path, p.via + (('call', c, site),))
            return Prov(('call', site))

    def varnames(self, op_or_place):
        """Names of the user variables the value passes through (innermost first), plus a named root."""
        if op_or_place and op_or_place[0] in ('c', 'm'):
            place = op_or_place[1]
        elif op_or_place and op_or_place[0] in ('k', 'fn'):
            return []
        else:
            place = op_or_place
        p = self.prov_place(place)
        out = [v[1] for v in p.via if v[0] == 'var']
        if p.root[0] in ('var', 'arg', 'upvar') and p.root[1 if p.root[0] != 'arg' else 2]:
            out.append(p.root[1] if p.root[0] != 'arg' else p.root[2])
        return out

    def render_place(self, place):
        """Render with closure upvar names where available."""
        p = self.prov_place(place)
        r = p.render()
        if self.kind == 'closure':
            # upvars: _1 (closure env) fields -> names
            for pl_json, name in self.names.items():
                pl = json.loads(pl_json)
                if pl and pl[0] == 1 and len(pl) > 1:
                    pass
        return r

    def upvar_name(self, place):
        """If `place` is (a projection of) a closure upvar, return (name, rest_projection)."""
        if self.kind != 'closure':
            return None
        best = None
        for pl_json, name in self.names.items():
            pl = json.loads(pl_json)
            if len(pl) > 1 and pl[0] == 1 and place[:len(pl)] == pl:
                if best is None or len(pl) > len(best[1]):
                    best = (name, pl)
        if best:
            return best[0], place[len(best[1]):]
        return None

    def chain(self, op_or_place):
        """Rendered provenance string of an operand or place, with closure upvars named."""
        if op_or_place and op_or_place[0] in ('c', 'm', 'k', 'fn'):
            if op_or_place[0] in ('k', 'fn'):
                return Prov(('const', op_or_place)).render()
            place = op_or_place[1]
        else:
            place = op_or_place
        p = self.prov_place(place)
        if p.root[0] == 'arg' and p.root[1] == 1 and self.kind == 'closure':
            full = [1] + list(p.path)
            uv = self.upvar_name(full)
            if uv:
                s = uv[0]
                for q in uv[1]:
                    if q != '*':
                        s += q
                return s
        return p.render()

    # ------------------------------------------------------------ dominance
    def _compute_dom(self, succ_fn, roots, nodes):
        # iterative dominator algorithm (Cooper-Harvey-Kennedy) on an arbitrary graph with virtual root
        order = []
        seen = set()

        def dfs(r):
            stack = [(r, iter(succ_fn(r)))]
            seen.add(r)
            while stack:
                n, it = stack[-1]
                adv = False
                for m in it:
                    if m not in seen and m in nodes:
                        seen.add(m)
                        stack.append((m, iter(succ_fn(m))))
                        adv = True
                        break
                if not adv:
                    order.append(n)
                    stack.pop()
        ROOT = -1
        for r in roots:
            if r not in seen:
                dfs(r)
        rpo = list(reversed(order))
        idx = {n: i + 1 for i, n in enumerate(rpo)}
        idx[ROOT] = 0
        preds = defaultdict(list)
        for n in rpo:
            for m in succ_fn(n):
                if m in idx:
                    preds[m].append(n)
        for r in roots:
            preds[r].append(ROOT)
        idom = {ROOT: ROOT}

        def intersect(a, b):
            while a != b:
                while idx[a] > idx[b]:
                    a = idom[a]
                while idx[b] > idx[a]:
                    b = idom[b]
            return a
        changed = True
        while changed:
            changed = False
            for n in rpo:
                ps = [p for p in preds[n] if p in idom]
                if not ps:
                    continue
                new = ps[0]
                for p in ps[1:]:
                    new = intersect(new, p)
                if idom.get(n) != new:
                    idom[n] = new
                    changed = True
        return idom

    @property
    def idom(self):
        if self._dom is None:
            nodes = set(range(len(self.blocks)))
            self._dom = self._compute_dom(lambda b: self.succ(b, False), [0], nodes)
        return self._dom

    @property
    def ipdom(self):
        """Post-dominators w.r.t. normal returns (blocks that cannot reach a return are absent)."""
        if self._pdom is None:
            preds = self.preds(False)
            rets = self.ret_blocks()
            nodes = set(range(len(self.blocks)))
            self._pdom = self._compute_dom(lambda b: preds.get(b, []), rets, nodes)
        return self._pdom

    def block_dominates(self, a, b):
        """a dominates b (reflexive). Unreachable b -> True vacuously is NOT assumed: returns False."""
        idom = self.idom
        if b not in idom:
            return False
        n = b
        while True:
            if n == a:
                return True
            if n == -1:
                return False
            m = idom.get(n)
            if m is None or m == n:
                return False
            n = m

    def block_postdominates(self, a, b):
        """a post-dominates b w.r.t. normal returns (reflexive)."""
        ip = self.ipdom
        if b not in ip:
            return False
        n = b
        while True:
            if n == a:
                return True
            if n == -1:
                return False
            m = ip.get(n)
            if m is None or m == n:
                return False
            n = m

    def dominates(self, A, B):
        """Site A dominates site B (strictly earlier on every path from entry)."""
        if A.b == B.b:
            return A.pos < B.pos
        return self.block_dominates(A.b, B.b)

    def postdominates(self, A, B):
        """Site A post-dominates site B: every normal path from B to a return passes A after B."""
        if A.b == B.b:
            return A.pos > B.pos
        return self.block_postdominates(A.b, B.b)

    def can_reach_return(self, b):
        return b in self.ipdom

    def edge_dominates(self, src, dst, b):
        """Every path from entry to block b passes through the CFG edge src->dst."""
        if not self.block_dominates(dst, b):
            return False
        for p in self.preds(False).get(dst, []):
            if p == src:
                continue
            # other predecessors must be dominated by dst (loop back edges) to keep exclusivity
            if not self.block_dominates(dst, p):
                return False
        # the edge itself must be the only edge from src into dst? (src may reach dst via other switch values; that is fine)
        return True

    def exists_path(self, start, goals, avoid=(), unwind=False, from_entry=False):
        """Witness search on the (non-unwind) CFG: is there a path that starts just after site `start`
        (or at function entry when from_entry) and reaches one of the `goals` sites without first passing
        one of the `avoid` sites?  Returns the list of blocks of such a path, or None."""
        ev = defaultdict(list)
        for g in goals:
            ev[g.b].append((g.pos[1], 'goal'))
        for a_ in avoid:
            ev[a_.b].append((a_.pos[1], 'avoid'))
        for b_ in ev:
            ev[b_].sort()

        def scan(b_, frm):
            for p, kind in ev.get(b_, []):
                if p > frm:
                    return kind
            return None
        if from_entry:
            sb, sp = 0, -2
        else:
            sb, sp = start.b, start.pos[1]
        r = scan(sb, sp)
        if r == 'goal':
            return [sb]
        if r == 'avoid':
            return None
        seen = set()
        stack = [(n, [sb, n]) for n in self.succ(sb, unwind)]
        while stack:
            b_, path = stack.pop()
            if b_ in seen:
                continue
            seen.add(b_)
            r = scan(b_, -2)
            if r == 'goal':
                return path
            if r == 'avoid':
                continue
            for n in self.succ(b_, unwind):
                if n not in seen:
                    stack.append((n, path + [n]))
        return None

    def ret_sites(self):
        return [self.term_site(b) for b in self.ret_blocks()]

    # ------------------------------------------------------------ misc queries
    def switch_info(self, b):
        """For a switch terminator: dict(kind=..., scrutinee provenance, arms: value->(target, label))."""
        t = self.blocks[b]['t']
        if t[0] != 'switch':
            return None
        op = t[1]
        info = {'block': b, 'arms': {}, 'otherwise': t[3], 'op': op}
        labels = None
        if op[0] in ('c', 'm') and len(op[1]) == 1:
            ds = self.defs.get(op[1][0], [])
            if len(ds) == 1 and ds[0][0] == 'assign':
                rv = ds[0][1].node[2]
                info['def'] = rv
                info['def_site'] = ds[0][1]
                if rv[0] == 'discr':
                    pl = rv[1]
                    info['discr_of'] = pl
                    ty = rv[2] if len(rv) > 2 else self.place_type(pl)
                    info['enum_ty'] = ty
                    labels = ('enum', ty)
        info['labels'] = labels
        for v, tgt in t[2]:
            info['arms'][v] = tgt
        return info

    def place_type(self, place):
        """Best-effort type string of a place (only handles bare locals and derefs of refs)."""
        ty = self.locals[place[0]]
        for p in place[1:]:
            if p == '*':
                ty = re.sub(r"^&('\w+ )?(mut )?", '', ty)
                ty = re.sub(r'^\*(mut|const) ', '', ty)
            else:
                return None
        return ty

    def err_exit_sites(self):
        """Sites that put an error into the return place: `_0 = Err(..)` aggregates and `?` residual calls."""
        out = []
        for s_ in self.sites:
            n = s_.node
            if s_.i != 'T' and n[0] == 'a' and n[1] == [0] and n[2][0] == 'agg':
                k = n[2][1]
                if k[0] == 'adt' and k[1] == 'core::result::Result' and k[2] == 'Err':
                    out.append(s_)
            if s_.is_call and s_.dest == [0] and s_.callee_orig and 'FromResidual' in s_.callee_orig:
                out.append(s_)
        return out

    def ok_exit_sites(self):
        out = []
        for s_ in self.sites:
            n = s_.node
            if s_.i != 'T' and n[0] == 'a' and n[1] == [0] and n[2][0] == 'agg':
                k = n[2][1]
                if k[0] == 'adt' and k[1] == 'core::result::Result' and k[2] == 'Ok':
                    out.append(s_)
        return out

    # ------------------------------------------------------------ atomics
    def atomic_ops(self):
        out = []
        for s_ in self.sites:
            if not s_.is_call or not s_.callee:
                continue
            m = ATOMIC_RE.match(s_.callee)
            if not m:
                continue
            op = m.group(2)
            recv = self.chain(s_.args[0])
            nord = 2 if op.startswith('compare_exchange') or op == 'fetch_update' else 1
            ords = [self.ordering_of(a) for a in s_.args[-nord:]] if op != 'fetch_update' else [self.ordering_of(a) for a in s_.args[1:3]]
            out.append(AtomicOp(s_, op, m.group(1), recv, ords))
        return out

    def ordering_of(self, operand):
        if operand[0] == 'k':
            v = operand[3]
            if isinstance(v, str):
                return v
            m = re.search(r'(Relaxed|Acquire|Release|AcqRel|SeqCst)', operand[1])
            return m.group(1) if m else 'unknown:' + operand[1]
        p = self.prov_operand(operand)
        if p.root[0] == 'agg':
            k = p.root[1][1]
            if k[0] == 'adt' and k[1] == 'core::sync::atomic::Ordering':
                return k[2]
        if p.root[0] == 'const':
            return self.ordering_of(p.root[1])
        if p.root[0] == 'arg':
            return 'param:%d' % p.root[1]
        return 'unknown:' + p.render()

    def const_of(self, operand):
        """Integer / enum-variant constant value of an operand if statically known else None."""
        if operand[0] == 'k':
            return operand[3] if operand[3] is not None else operand[1]
        p = self.prov_operand(operand)
        if p.path:
            return None
        if p.root[0] == 'const':
            n = p.root[1]
            return n[3] if n[3] is not None else n[1]
        if p.root[0] == 'agg':
            k = p.root[1][1]
            if k[0] == 'adt' and not p.root[1][2]:
                return k[2]
        return None

    def enum_variant_of(self, operand):
        """(adt path, variant) if the operand is a freshly built enum value."""
        if operand[0] == 'k':
            return None
        p = self.prov_operand(operand)
        if p.root[0] == 'agg' and not p.path:
            k = p.root[1][1]
            if k[0] == 'adt':
                return (k[1], k[2])
        return None

    # ------------------------------------------------------------ raw memory
    def raw_accesses(self):
        """Raw-pointer reads/writes: ptr.write/read calls, copy_nonoverlapping, `*p = v` on raw pointers."""
        out = []
        for s_ in self.sites:
            n = s_.node
            if s_.is_call and s_.callee:
                c = s_.callee
                if re.search(r'^core::ptr::mut_ptr::<impl \*mut T>::(write|write_volatile|write_unaligned|write_bytes)$', c) or c in ('core::ptr::write', 'core::ptr::write_volatile', 'core::ptr::write_unaligned', 'core::ptr::write_bytes'):
                    out.append(('write', s_, self.chain(s_.args[0])))
                elif re.search(r'^core::ptr::(const_ptr::<impl \*const T>|mut_ptr::<impl \*mut T>)::(read|read_volatile|read_unaligned)$', c) or c in ('core::ptr::read', 'core::ptr::read_volatile', 'core::ptr::read_unaligned'):
                    out.append(('read', s_, self.chain(s_.args[0])))
                elif re.search(r'copy_nonoverlapping$|::copy$|copy_to_nonoverlapping$|copy_from_nonoverlapping$', c) and c.startswith('core::'):
                    out.append(('copy', s_, self.chain(s_.args[0]) + ' -> ' + (self.chain(s_.args[1]) if len(s_.args) > 1 else '?')))
            elif s_.i != 'T' and n[0] == 'copy_nonoverlapping':
                out.append(('copy', s_, self.chain(n[1]) + ' -> ' + self.chain(n[2])))
            elif s_.i != 'T' and n[0] == 'a':
                pl = n[1]
                if '*' in pl[1:]:
                    base_ty = self.locals[pl[0]]
                    if base_ty.startswith('*mut') or base_ty.startswith('*const'):
                        out.append(('write', s_, self.chain(pl)))
                rv = n[2]
                if rv[0] == 'use' and rv[1][0] in ('c', 'm'):
                    pl2 = rv[1][1]
                    if '*' in pl2[1:]:
                        base_ty = self.locals[pl2[0]]
                        if base_ty.startswith('*mut') or base_ty.startswith('*const'):
                            out.append(('read', s_, self.chain(pl2)))
        return out


class AtomicOp:
    __slots__ = ('site', 'op', 'ty', 'recv', 'ords')

    def __init__(self, site, op, ty, recv, ords):
        self.site, self.op, self.ty, self.recv, self.ords = site, op, ty, recv, ords

    def __repr__(self):
        return '%s @%s [%s] %s' % (self.op, self.recv, ','.join(self.ords), self.site.where)


def _arg_permutation(pin, cur_names, cur_tys):
    """perm[k] = current position of the parameter that was at position k when the rules were written, or None (keep the call as it is)."""
    pn, pt = pin['names'], pin['tys']
    n = len(pn)
    if n != len(cur_names) or cur_names == pn:
        return None
    perm = [None] * n
    used = set()
    for k in range(n):
        if pn[k] is not None and cur_names.count(pn[k]) == 1 and pn.count(pn[k]) == 1:
            perm[k] = cur_names.index(pn[k])
            used.add(perm[k])
    rest_p = [k for k in range(n) if perm[k] is None]
    rest_c = [c for c in range(n) if c not in used]
    if len(rest_p) == 1:
        perm[rest_p[0]] = rest_c[0]
    elif rest_p:
        # renamed parameters: match the remaining ones by their declared type when that is unambiguous
        for k in rest_p:
            hits = [c for c in rest_c if cur_tys[c] == pt[k]]
            if len(hits) == 1 and [pt[q] for q in rest_p].count(pt[k]) == 1:
                perm[k] = hits[0]
        left_p = [k for k in rest_p if perm[k] is None]
        left_c = [c for c in rest_c if c not in perm]
        if len(left_p) == 1 and len(left_c) == 1:
            perm[left_p[0]] = left_c[0]
        elif left_p:
            # ambiguous: keep the relative order of what is left
            for k, c in zip(left_p, left_c):
                perm[k] = c
    if sorted(perm) != list(range(n)) or perm == list(range(n)):
        return None
    return perm


class Facts:
    def __init__(self, facts_dir, canonical_args=True):
        self.dir = facts_dir
        self.fns = {}
        self.fn_list = []
        self.adts = {}
        self.impls = []
        self.consts = {}
        self.traits = {}
        self.crates = []
        self._closures = defaultdict(list)
        self._callers = None
        pk = os.path.join(facts_dir, 'all.pickle')
        data = None
        if os.path.exists(pk):
            try:
                with open(pk, 'rb') as f:
                    data = pickle.load(f)
            except Exception:
                data = None
        if data is None:
            data = {}
            for fn in sorted(os.listdir(facts_dir)):
                if fn.endswith('.json'):
                    with open(os.path.join(facts_dir, fn)) as f:
                        data[fn[:-5]] = json.load(f)
            try:
                tmp = pk + '.tmp.%d' % os.getpid()
                with open(tmp, 'wb') as f:
                    pickle.dump(data, f, protocol=pickle.HIGHEST_PROTOCOL)
                os.replace(tmp, pk)
            except Exception:
                pass
        for crate, d in data.items():
            self.crates.append(crate)
            for fj in d['fns']:
                fn = Fn(crate, fj)
                self.fn_list.append(fn)
                self.fns.setdefault(fn.id, []).append(fn)
                if fn.kind == 'closure':
                    self._closures[fn.parent].append(fn)
            for a in d['adts']:
                a['crate'] = crate
                self.adts[a['id']] = a
            for im in d['impls']:
                im['crate'] = crate
                self.impls.append(im)
            for c in d['consts']:
                self.consts[c['id']] = c
            for t in d['traits']:
                self.traits[t['id']] = t
        self.reordered_calls = 0
        self.arg_permutations = None
        self.inlined = []
        if canonical_args:
            self._canonicalise_call_arguments()
            self._inline_new_helpers()

    def _inline_new_helpers(self):
        sp = os.path.join(os.path.dirname(os.path.abspath(__file__)), 'function_ids.json')
        if not os.path.exists(sp):
            return
        with open(sp) as fh:
            pinned = set(json.load(fh))
        from . import inline
        inline.run(self, pinned, self.inlined)

    def _canonicalise_call_arguments(self):
        """Present the arguments of every call to a product function in the parameter order frozen in rules/signatures.json (the order the
        rules were written against).  A reordering of a private function's parameters (with all callers adapted) is behaviour preserving;
        rules that pick `args[k]` keep seeing the argument of the same parameter.  Identified by name, then by unique declared type."""
        sp = os.path.join(os.path.dirname(os.path.abspath(__file__)), 'signatures.json')
        if not os.path.exists(sp):
            return
        self.arg_permutations = {}
        with open(sp) as fh:
            pinned = json.load(fh)
        perms = {}
        for fid, pin in pinned.items():
            l = self.fns.get(fid)
            if not l:
                continue
            g = l[0]
            if g.nargs != len(pin['names']):
                continue
            perm = _arg_permutation(pin, [g.local_name(i) for i in range(1, g.nargs + 1)], [str(g.locals[i]) for i in range(1, g.nargs + 1)])
            if perm is not None:
                perms[fid] = perm
        self.arg_permutations = perms
        if not perms:
            return
        for f in self.fn_list:
            for blk in f.blocks:
                t = blk['t']
                if t and t[0] in ('call', 'tailcall') and isinstance(t[1], dict):
                    perm = perms.get(t[1].get('d'))
                    if perm is not None and len(t[2]) == len(perm):
                        t[2] = [t[2][c] for c in perm]
                        self.reordered_calls += 1

    # ---- lookup
    def fn(self, fid):
        """Exact id lookup; fail closed."""
        l = self.fns.get(fid)
        if not l:
            raise AnchorMissing('function %s' % fid)
        if len(l) > 1:
            raise AnchorMissing('function %s is ambiguous (%d bodies)' % (fid, len(l)))
        return l[0]

    def fn_opt(self, fid):
        l = self.fns.get(fid)
        return l[0] if l else None

    def find_fns(self, pat, crate=None):
        rx = re.compile(pat)
        return [f for f in self.fn_list if rx.search(f.id) and (crate is None or f.crate == crate)]

    def closures_of(self, fn, recursive=True):
        out = []
        for c in self._closures.get(fn.id, []):
            out.append(c)
            if recursive:
                out.extend(self.closures_of(c, True))
        return out

    def adt(self, aid):
        a = self.adts.get(aid)
        if a is None:
            raise AnchorMissing('type %s' % aid)
        return a

    def impls_of(self, trait_pat):
        rx = re.compile(trait_pat)
        return [i for i in self.impls if i['trait'] and rx.search(i['trait'])]

    def callers_of(self, pat):
        rx = re.compile(pat)
        out = []
        for f in self.fn_list:
            for s_ in f.sites:
                if s_.is_call and s_.callee and (rx.search(s_.callee) or rx.search(s_.callee_orig or '')):
                    out.append(s_)
        return out

    def enum_labels(self, ty_str):
        """discriminant value -> variant name for an enum type string."""
        if ty_str is None:
            return None
        base = re.sub(r'<.*$', '', ty_str)
        if base in FOREIGN_ENUMS:
            return FOREIGN_ENUMS[base]
        a = self.adts.get(base)
        if a and a['kind'] == 'enum':
            return {v['discr']: v['name'] for v in a['variants']}
        return None


# ---------------------------------------------------------------------------
# Check result plumbing
# ---------------------------------------------------------------------------
class Report:
    """Collects obligations (rule instances), violations and samples of one property check."""

    def __init__(self, pid):
        self.pid = pid
        self.obligations = []   # dict(rule, key, ok, detail, where)
        self.notes = []
        self.floors = {}
        self.functions = set()
        self.call_sites = 0

    def ob(self, rule, key, ok, detail='', where='', fn=None):
        self.obligations.append({'rule': rule, 'key': key, 'ok': bool(ok), 'detail': detail, 'where': where})
        if fn is not None:
            self.functions.add(fn.id if hasattr(fn, 'id') else str(fn))
        return bool(ok)

    def floor(self, name, seen, expected):
        self.floors[name] = {'expected': expected, 'seen': seen}
        self.ob('FLOOR', 'floor::%s' % name, seen >= expected,
                'instances seen=%d, confirmed by hand=%d' % (seen, expected))

    def exact(self, name, seen, expected):
        self.floors[name] = {'expected': expected, 'seen': seen}
        self.ob('COUNT', 'count::%s' % name, seen == expected,
                'instances seen=%d, expected exactly %d' % (seen, expected))

    def missing(self, what):
        self.ob('ANCHOR', 'anchor-missing::%s' % what, False, 'anchor not found: %s' % what)

    def violations(self):
        return [o for o in self.obligations if not o['ok']]


# ---------------------------------------------------------------------------
# Symbolic integer expressions (SYM-EQ / POLY)
# ---------------------------------------------------------------------------
_BIN = {'Add': '+', 'AddUnchecked': '+', 'AddWithOverflow': '+', 'Mul': '*', 'MulUnchecked': '*', 'MulWithOverflow': '*',
        'Sub': '-', 'SubUnchecked': '-', 'SubWithOverflow': '-', 'Div': '/', 'Rem': '%', 'Shl': '<<', 'ShlUnchecked': '<<',
        'Shr': '>>', 'ShrUnchecked': '>>', 'BitAnd': '&', 'BitOr': '|', 'BitXor': '^',
        'Eq': '==', 'Ne': '!=', 'Lt': '<', 'Le': '<=', 'Gt': '>', 'Ge': '>='}


def sym(fn, operand, depth=0, stop_at_calls=True):
    """Symbolic term of an integer-valued operand: constants, `self.field`/parameter symbols,
    arithmetic, uninterpreted calls."""
    if depth > 40:
        return ('?', 'depth')
    if operand[0] == 'k':
        v = operand[3]
        if isinstance(v, int):
            return ('c', v)
        if operand[4]:
            return ('s', 'const:' + operand[4])
        return ('s', 'const:' + operand[1])
    if operand[0] == 'fn':
        return ('s', 'fn:' + operand[1])
    place = operand[1]
    return sym_place(fn, place, depth)


def sym_place(fn, place, depth=0):
    local = place[0]
    proj = [p for p in place[1:] if p != '*']
    if 1 <= local <= fn.nargs and not fn.defs.get(local):
        name = fn.local_name(local) or ('arg%d' % local)
        return ('s', name + ''.join(proj))
    ds = fn.defs.get(local, [])
    if len(ds) != 1:
        if 1 <= local <= fn.nargs:
            return ('s', (fn.local_name(local) or 'arg%d' % local) + ''.join(proj))
        if not ds:
            # maybe only partial definitions (tuple fields)
            return ('s', '_%d%s' % (local, ''.join(proj)))
        nm = fn.local_name(local)
        if nm:
            return ('phi', '%s%s' % (nm, ''.join(proj)), local)
        return ('phi', '_%d%s' % (local, ''.join(proj)), local)
    kind, site = ds[0]
    return sym_def(fn, kind, site, proj, depth)


def sym_def(fn, kind, site, proj=(), depth=0):
    """Symbolic value assigned by ONE definition site of a local (an assignment or a call)."""
    proj = list(proj)
    n = site.node
    if kind == 'assign':
        rv = n[2]
        k = rv[0]
        if k == 'use':
            t = sym(fn, rv[1], depth + 1)
            return _proj(t, proj)
        if k in ('ref', 'rawptr'):
            t = sym_place(fn, rv[2], depth + 1)
            return _proj(t, proj)
        if k == 'cast':
            if rv[1] in ('IntToInt', 'Transmute', 'PtrToPtr'):
                return _proj(sym(fn, rv[2], depth + 1), proj)
            return ('cast', rv[1], sym(fn, rv[2], depth + 1))
        if k == 'bin':
            op = _BIN.get(rv[1], rv[1])
            a = sym(fn, rv[2], depth + 1)
            b = sym(fn, rv[3], depth + 1)
            t = (op, a, b)
            if proj and rv[1].endswith('WithOverflow'):
                # (result, overflow-flag) tuple: .0 is the value
                if proj[0] == '.0':
                    return _proj(t, proj[1:])
                return ('?', 'overflow-flag')
            return _proj(t, proj)
        if k == 'un':
            return (rv[1], sym(fn, rv[2], depth + 1))
        if k == 'agg':
            kk = rv[1]
            if proj and kk[0] == 'adt' and kk[3]:
                f0 = proj[0][1:]
                if f0 in kk[3]:
                    return _proj(sym(fn, rv[2][kk[3].index(f0)], depth + 1), proj[1:])
            if proj and kk[0] == 'tuple':
                try:
                    i = int(proj[0][1:])
                    return _proj(sym(fn, rv[2][i], depth + 1), proj[1:])
                except (ValueError, IndexError):
                    pass
            return ('agg', agg_name(rv), tuple(sym(fn, o, depth + 1) for o in rv[2]))
        if k == 'discr':
            return ('discr', sym_place(fn, rv[1], depth + 1))
        return ('?', k)
    else:
        c = site.callee
        if c is not None and _SYM_PASS_RE.search(c) and site.args:
            return _proj(sym(fn, site.args[0], depth + 1), proj)
        args = tuple(sym(fn, a, depth + 1) for a in site.args)
        return _proj(('call', site.callee_full or site.callee or 'ptr', args), proj)


def phi_alternatives(fn, term, depth=0):
    """All value alternatives of a term whose root is a phi (multi-definition local): the symbolic value of each
    definition, recursively (bounded).  Non-phi terms yield themselves."""
    if term[0] != 'phi' or len(term) < 3 or depth > 6:
        return [term]
    out = []
    for kind, site in fn.defs.get(term[2], []):
        n = site.node
        if kind == 'assign':
            rv = n[2]
            if rv[0] == 'use':
                sub = sym(fn, rv[1])
            elif rv[0] in ('ref', 'rawptr'):
                sub = sym_place(fn, rv[2])
            elif rv[0] == 'cast':
                sub = sym(fn, rv[2])
            else:
                sub = sym_def(fn, kind, site, (), depth + 1)
        else:
            args = tuple(sym(fn, a) for a in site.args)
            sub = ('call', site.callee_full or site.callee or 'ptr', args)
        out.extend(phi_alternatives(fn, sub, depth + 1))
    return out or [term]


def _proj(t, proj):
    if not proj:
        return t
    if t[0] == 's':
        return ('s', t[1] + ''.join(proj))
    return ('proj', t, tuple(proj))


def sym_str(t):
    k = t[0]
    if k == 'c':
        return str(t[1])
    if k == 's':
        return t[1]
    if k in ('+', '*', '-', '/', '%', '<<', '>>', '&', '|', '^', '==', '!=', '<', '<=', '>', '>='):
        return '(%s %s %s)' % (sym_str(t[1]), k, sym_str(t[2]))
    if k == 'call':
        return '%s(%s)' % (short(t[1]), ', '.join(sym_str(a) for a in t[2]))
    if k == 'proj':
        return sym_str(t[1]) + ''.join(t[2])
    if k == 'cast':
        return 'cast<%s>(%s)' % (t[1], sym_str(t[2]))
    if k == 'agg':
        return '%s{%s}' % (t[1], ', '.join(sym_str(a) for a in t[2]))
    if k in ('Not', 'Neg', 'PtrMetadata'):
        return '%s(%s)' % (k, sym_str(t[1]))
    if k == 'discr':
        return 'discr(%s)' % sym_str(t[1])
    return '%s:%s' % (k, t[1] if len(t) > 1 else '')


def sym_norm(t):
    """Normal form: commutative operands sorted, constants folded."""
    k = t[0]
    if k in ('+', '*'):
        items = []

        def flat(x):
            x = sym_norm(x)
            if x[0] == k:
                items.extend(x[1])
            else:
                items.append(x)
        if len(t) == 2:
            for y in t[1]:
                flat(y)
        else:
            flat(t[1]); flat(t[2])
        c = 0 if k == '+' else 1
        rest = []
        for x in items:
            if x[0] == 'c':
                c = c + x[1] if k == '+' else c * x[1]
            else:
                rest.append(x)
        rest.sort(key=repr)
        if (k == '+' and c != 0) or (k == '*' and c != 1) or not rest:
            rest.append(('c', c))
        if len(rest) == 1:
            return rest[0]
        return (k, tuple(rest))
    if k in ('-', '/', '%', '<<', '>>', '&', '|', '^', '==', '!=', '<', '<=', '>', '>='):
        a, b = sym_norm(t[1]), sym_norm(t[2])
        if a[0] == 'c' and b[0] == 'c':
            try:
                v = {'-': a[1] - b[1], '/': a[1] // b[1] if b[1] else None, '%': a[1] % b[1] if b[1] else None,
                     '<<': a[1] << b[1], '>>': a[1] >> b[1], '&': a[1] & b[1], '|': a[1] | b[1], '^': a[1] ^ b[1]}.get(k)
                if v is not None:
                    return ('c', v)
            except Exception:
                pass
        if k in ('&', '|', '^', '==', '!=') and repr(a) > repr(b):
            a, b = b, a
        return (k, a, b)
    if k == 'call':
        return ('call', re.sub(r"'\w+", "'_", t[1]), tuple(sym_norm(a) for a in t[2]))
    if k == 'proj':
        return ('proj', sym_norm(t[1]), t[2])
    if k == 'cast':
        return ('cast', t[1], sym_norm(t[2]))
    if k == 'agg':
        return ('agg', t[1], tuple(sym_norm(a) for a in t[2]))
    if k in ('Not', 'Neg'):
        return (k, sym_norm(t[1]))
    return t


def sym_nstr(t):
    t = sym_norm(t)

    def s_(x):
        if x[0] in ('+', '*') and isinstance(x[1], tuple) and x[1] and isinstance(x[1][0], tuple):
            return '(' + (' %s ' % x[0]).join(s_(y) for y in x[1]) + ')'
        if x[0] in ('-', '/', '%', '<<', '>>', '&', '|', '^', '==', '!=', '<', '<=', '>', '>='):
            return '(%s %s %s)' % (s_(x[1]), x[0], s_(x[2]))
        if x[0] == 'call':
            return '%s(%s)' % (short(x[1]), ', '.join(s_(a) for a in x[2]))
        if x[0] == 'proj':
            return s_(x[1]) + ''.join(x[2])
        if x[0] == 'cast':
            return 'cast(%s)' % s_(x[2])
        if x[0] == 'agg':
            return '%s{%s}' % (x[1], ', '.join(s_(a) for a in x[2]))
        if x[0] in ('Not', 'Neg'):
            return '%s(%s)' % (x[0], s_(x[1]))
        return sym_str(x)
    return s_(t)


class NotPoly(Exception):
    pass


def poly(t, inline=None):
    """Polynomial with natural coefficients: dict {sorted tuple of symbol names: coeff}.  Raises NotPoly on
    subtraction, division, branches (phi) or anything else outside the domain.  `inline(callee, args)` may
    return a term for a call (to splice another POLY-analysable function) or None (uninterpreted symbol)."""
    k = t[0]
    if k == 'c':
        if t[1] < 0:
            raise NotPoly('negative constant')
        return {(): t[1]} if t[1] else {}
    if k == 's':
        return {(t[1],): 1}
    if k in ('+', '*'):
        items = list(t[1]) if len(t) == 2 else [t[1], t[2]]
        ps = [poly(x, inline) for x in items]
        r = ps[0]
        for b in ps[1:]:
            if k == '+':
                r = dict(r)
                for m, c in b.items():
                    r[m] = r.get(m, 0) + c
            else:
                r2 = {}
                for m1, c1 in r.items():
                    for m2, c2 in b.items():
                        m = tuple(sorted(m1 + m2))
                        r2[m] = r2.get(m, 0) + c1 * c2
                r = r2
        return r
    if k == 'call':
        if inline is not None:
            sub = inline(t[1], t[2])
            if sub is not None:
                return poly(sub, inline)
        return {(sym_nstr(t),): 1}
    if k == 'proj':
        return {(sym_nstr(t),): 1}
    raise NotPoly('operator %s in %s' % (k, sym_str(t)))


def poly_ge(p, q):
    """p >= q coefficient-wise (sound for natural-valued symbols)."""
    for m, c in q.items():
        if p.get(m, 0) < c:
            return False
    return True


def poly_str(p):
    if not p:
        return '0'
    parts = []
    for m, c in sorted(p.items()):
        if not m:
            parts.append(str(c))
        else:
            parts.append(('%d*' % c if c != 1 else '') + '*'.join(m))
    return ' + '.join(parts)
