"""E3 - compile-fail witnesses (type-level remainder).  Each witness is a rustdoc `compile_fail,E0xxx` snippet paired with a
compiling twin differing only in the offending line; run by `cargo +nightly test --doc` in /verif/witness."""
import os, subprocess, re, json, shutil, hashlib, time

VERIF = os.path.dirname(os.path.dirname(os.path.abspath(__file__)))
W = os.path.join(VERIF, 'witness')
_cache = {}


def _run_all():
    """Runs the doc tests once per process (per tree); returns {test name: 'ok'|'FAILED'|...}."""
    if 'res' in _cache:
        return _cache['res']
    repo = os.environ.get('IOX2_REPO', '/repo')
    shutil.copyfile(os.path.join(repo, 'Cargo.lock'), os.path.join(W, 'Cargo.lock'))
    env = dict(os.environ)
    env['CARGO_NET_OFFLINE'] = 'true'
    env['CARGO_TARGET_DIR'] = os.path.join(VERIF, '.cache', 'witness-target')
    env.pop('RUSTC_WORKSPACE_WRAPPER', None)
    t0 = time.time()
    p = subprocess.run(['cargo', '+nightly', 'test', '--doc', '--offline', '--', '--test-threads', '8'], cwd=W, env=env, stdout=subprocess.PIPE, stderr=subprocess.STDOUT, text=True)
    out = p.stdout
    res = {}
    for m in re.finditer(r'^test (\S.*?) \.\.\. (\w+)', out, re.M):
        res[m.group(1)] = m.group(2)
    _cache['res'] = (res, out, p.returncode, time.time() - t0)
    return _cache['res']


def run(R, pid, tier):
    """Evaluates the witnesses of property pid: `compile_fail` snippets must fail with the stated code, twins must compile."""
    res, out, rc, wall = _run_all()
    mine = {k: v for k, v in res.items() if ('::%s_' % pid.lower()) in k.lower() or ('/%s_' % pid.lower()) in k.lower() or (pid.lower() + '_') in k.lower()}
    n = 0
    for name, status in sorted(mine.items()):
        n += 1
        kind = 'compile_fail' if 'compile fail' in name or 'compile_fail' in name else 'twin'
        item = re.search(r' - (\w+)', name)
        item = item.group(1) if item else name
        R.ob('WITNESS', 'WITNESS::%s::%s' % (pid, item + ('::compile_fail' if kind == 'compile_fail' else '::twin')), status == 'ok',
             '%s: %s (%s)' % (kind, status, 'the offending program is rejected with the stated error code' if kind == 'compile_fail' else 'the twin without the offending line compiles'), 'witness/src/lib.rs')
    if n == 0:
        R.ob('WITNESS', 'WITNESS::%s::none-ran' % pid, False, 'no witness doc-test ran for %s (cargo rc=%s)\n%s' % (pid, rc, out[-1500:]), 'witness/src/lib.rs')
    return {'ran': n, 'wall_s': round(wall, 1)}
