"""C17 - orderly shutdown: every port registers last and de-registers in Drop, API objects own (counted) what their Drop and
their raw/static references depend on, marker fields last."""
import re
from . import core, lib
from .core import sym, sym_nstr
from .lib import dom, fnkey, field_order_last

EXPLANATION = (
    "Static rules: PAIR over the 8 ports (the registry handle obtained from add_<port>_id is released by release_<port>_handle in "
    "the Drop of the port or of its shared state, on every path; release_*_handle is called from nowhere else); ServiceState::drop "
    "deregisters the node and removes the service tag (shared with C06); SharedNodeState::drop removes the node; FIELD-ORDER (markers "
    "last, shared with C04); OWNED-DEPENDENCY walk over the type facts: every struct of crate iceoryx2 holding a `&'static` reference "
    "or a raw pointer into shared memory (ports' *_details, Chunk addresses, entry handles) also holds - directly or through its "
    "shared-state Arc - the SharedServiceState / data segment that keeps that memory mapped (type-level reachability over fields), "
    "so it keeps working until it is dropped itself whatever the drop order. What Rust's ownership already guarantees needs no "
    "checker; compile-fail witnesses pin the two lifetime facts users rely on. All permutations of drop order as histories and "
    "'no Drop blocks' are not decided.")
NOT_DECIDED = "all permutations of drop order as executed histories; that no Drop blocks or panics"

KEEPERS = ('iceoryx2::service::SharedServiceState', 'iceoryx2::service::ServiceState', 'iceoryx2::port::details::data_segment::DataSegment',
           'iceoryx2::port::details::data_segment::DataSegmentView', 'iceoryx2::service::resource::blackboard::BlackboardResources')
OWNED_EXCEPTIONS = {
    'iceoryx2::port::details::chunk_mut_shared_state::MemoryStructure': 'transient value (chunk + payload geometry) returned by the loan computation and immediately moved into a SampleMut/RequestMut that owns the shared state; never stored on its own',
}
PORTS = ('publisher', 'subscriber', 'client', 'server', 'notifier', 'listener', 'reader', 'writer')


def adts_in(ty, acc):
    if not isinstance(ty, list) or not ty:
        return
    if ty[0] == 'adt':
        acc.add(ty[1])
        for a in ty[2]:
            adts_in(a, acc)
    elif ty[0] in ('ptr', 'ref'):
        adts_in(ty[2], acc)
    elif ty[0] in ('array', 'slice'):
        adts_in(ty[1], acc)
    elif ty[0] == 'tuple':
        for a in ty[1]:
            adts_in(a, acc)
    elif ty[0] == 'alias' and len(ty) >= 5:
        for a in ty[4]:
            adts_in(a, acc)


def reaches_keeper(F, field_ty, seen=None, depth=0):
    seen = seen if seen is not None else set()
    acc = set()
    adts_in(field_ty, acc)
    for p in acc:
        if p in KEEPERS:
            return p
        if p in seen or depth > 8:
            continue
        seen.add(p)
        a = F.adts.get(p)
        if a and a['crate'] in ('iceoryx2',):
            for v in a['variants']:
                for fld in v['fields']:
                    if fld['ty'][0] in ('ref',) and "'static" not in fld['ty_s']:
                        continue
                    r = reaches_keeper(F, fld['ty'], seen, depth + 1)
                    if r:
                        return r
    return None


def owned_dependencies(F, R):
    n = 0
    holders_of_chunk = []
    for aid, a in sorted(F.adts.items()):
        if a['crate'] != 'iceoryx2' or a['kind'] != 'struct' or not a['variants']:
            continue
        flds = a['variants'][0]['fields']
        unsafe_refs = [x for x in flds if (x['ty'][0] == 'ref' and "'static" in x['ty_s']) or x['ty'][0] == 'ptr']
        holds_chunk = [x for x in flds if re.search(r'port::details::chunk::Chunk(Mut)?$', x['ty'][1] if x['ty'][0] == 'adt' else '')]
        if aid.endswith('::Chunk') or aid.endswith('::ChunkMut'):
            continue    # bare address triple; checked through its holders
        if not unsafe_refs and not holds_chunk:
            continue
        others = [x for x in flds if x not in unsafe_refs]
        keeper = None
        via = None
        for x in others:
            k = reaches_keeper(F, x['ty'])
            if k:
                keeper, via = k, x['name']
                break
        n += 1
        if keeper is None and aid in OWNED_EXCEPTIONS:
            R.ob('OWNED-DEPENDENCY', 'OWNED-DEPENDENCY::%s' % aid, True, 'exempt: %s' % OWNED_EXCEPTIONS[aid], '%s:%s' % (a['file'], a['line']))
            continue
        what = [x['name'] for x in unsafe_refs] + ['%s (chunk addresses)' % x['name'] for x in holds_chunk]
        R.ob('OWNED-DEPENDENCY', 'OWNED-DEPENDENCY::%s' % aid, keeper is not None,
             'holds %s into shared memory; kept mapped by field `%s` reaching %s' % (what, via, core.short(keeper) if keeper else 'NOTHING - the referenced memory may be unmapped while this object lives'), '%s:%s' % (a['file'], a['line']))
    R.floor('structs with static/raw references into shared memory', n, 16)


def port_pairing(F, R):
    seen = {}
    for s in F.callers_of(r'dynamic_config::\w+::DynamicConfig::release_(\w+)_handle$'):
        kind = re.search(r'release_(\w+)_handle$', s.callee).group(1)
        f = s.fn
        in_drop = bool(re.search(r' as core::ops::drop::Drop>::drop', f.id))
        R.ob('WHO-MAY-CALL', 'WHO-MAY-CALL::release_%s_handle::%s' % (kind, fnkey(f)), in_drop, 'release_%s_handle is called from %s; required: only from a Drop impl of the port / its shared state' % (kind, f.id[:100]), s.where, f)
        if in_drop:
            seen[kind] = (f, s)
    for k in PORTS:
        key = 'PAIR::%s::release-in-Drop' % k
        if k not in seen:
            R.ob('PAIR', key, False, 'no Drop impl calls release_%s_handle: the registry entry would outlive the port' % k, '')
            continue
        f, s = seen[k]
        # reached on every path unless guarded by `if let Some(handle)` (handle not yet registered)
        pth = f.exists_path(None, f.ret_sites(), [s], from_entry=True)
        guards = [sym_nstr(sym(f, f.blocks[b]['t'][1])) for (b, tgt) in lib.guard_switches(f, s)]
        ok = pth is None or all(('handle' in g or 'discr' in g) for g in guards)
        R.ob('PAIR', key, ok, 'Drop releases the %s registry handle (guards: %s)' % (k, [g[:60] for g in guards]), s.where, f)
        t = sym_nstr(sym(f, s.args[1]))
        R.ob('FLOW', 'FLOW::%s::releases-own-handle' % fnkey(f), 'handle' in t and ('self' in t), 'release_%s_handle(%s)' % (k, t[:80]), s.where, f)
    R.floor('ports with release in Drop', len(seen), 8)
    # the handle stored in the port is the one add_<port>_id returned
    n = 0
    for s in F.callers_of(r'dynamic_config::\w+::DynamicConfig::add_(\w+)_id$'):
        f = s.fn
        kind = re.search(r'add_(\w+)_id$', s.callee).group(1)
        stored = False
        for x in f.sites:
            nd = x.node
            txt = None
            if x.i != 'T' and nd[0] == 'a':
                rv = nd[2]
                ops = rv[2] if rv[0] == 'agg' else ([rv[1]] if rv[0] == 'use' else [])
                for o in ops:
                    if isinstance(o, list) and o and o[0] in ('c', 'm'):
                        p = f.prov_operand(o)
                        if p.root[0] == 'call' and p.root[1].key() == s.key() and any(str(q) in ('.1',) for q in p.path):
                            stored = True
        n += 1
        R.ob('FLOW', 'FLOW::%s::handle-of-add_%s_id-stored' % (fnkey(f), kind), stored, 'the ContainerHandle returned by add_%s_id is stored in the port (it is what Drop releases)' % kind, s.where, f)
    R.floor('add_*_id call sites', n, 8)


def node_and_service(F, R):
    ds = F.find_fns(r'^<iceoryx2::node::SharedNodeState<.*> as core::ops::drop::Drop>::drop$')
    if len(ds) != 1:
        R.missing('Drop for SharedNodeState')
    else:
        d = ds[0]
        bodies = lib.family(F, d)
        rn = sum((b.calls(r'node::remove_node$|::remove_node$') for b in bodies), [])
        R.ob('MUST-CALL', 'MUST-CALL::%s::remove_node' % fnkey(d), bool(rn), 'dropping the last node handle removes the node\'s resources', rn[0].where if rn else d.file, d)
    ds = F.find_fns(r'^<iceoryx2::service::ServiceState<.*> as core::ops::drop::Drop>::drop$')
    if len(ds) != 1:
        R.missing('Drop for ServiceState')
    else:
        d = ds[0]
        bodies = lib.family(F, d)
        dereg = sum((b.calls(r'DynamicConfig::deregister_node_id$') for b in bodies), [])
        rm = d.calls(r'RegisteredServices::remove$')
        R.ob('MUST-CALL', 'MUST-CALL::%s::deregister_node_id' % fnkey(d), bool(dereg) and len(rm) == 1 and d.exists_path(None, d.ret_sites(), rm, from_entry=True) is None, 'ServiceState::drop goes through registered_services().remove(.. deregister ..) on every path', rm[0].where if rm else d.file, d)
    # marker fields last (shared with C04)
    n = 0
    for aid, a in F.adts.items():
        if a['crate'] == 'iceoryx2' and a['kind'] == 'struct' and a['variants'] and aid.startswith('iceoryx2::port::'):
            names = [x['name'] for x in a['variants'][0]['fields']]
            if 'port_tag' in names:
                n += 1
                field_order_last(R, F, aid, 'port_tag', why='every other field is dropped while the cleanup marker still exists')
    R.floor('port structs with a port_tag', n, 8)
    field_order_last(R, F, 'iceoryx2::service::ServiceState', 'static_storage', why='removed last: it names all other resources')


def accumulator_loops(F, R):
    """Receiver: the loops that OR-accumulate per-channel facts (has data / has borrows) leave early only when every accumulated flag is
    already true; otherwise a connection that still holds a borrowed chunk in a later channel is reported as unused and removed while a
    live object still points into it."""
    n = 0
    for f in F.find_fns(r'^iceoryx2::port::details::receiver::Receiver::<.*>::\w+$'):
        for accs, exits, ver, loop in lib.accumulator_loop_exits(f):
            for (e, a), v in sorted(ver.items()):
                n += 1
                R.ob('LOOP', 'LOOP::%s::early-exit-only-when-%s-known' % (fnkey(f), f.local_name(a) or 'acc%d' % a), v, 'the early loop exit bb%d->bb%d is taken only when the accumulated flag `%s` is already true (otherwise later channels are not examined and the flag under-approximates)' % (e[0], e[1], f.local_name(a) or a), f.term_site(e[0]).where, f)
    # anchor: the function that reports (has_data, has_borrows) per receiver must exist; how many of its loops use the `acc |= ..` + early
    # exit idiom is not a property of the code (a loop that returns directly, or one without an early exit, has nothing to under-approximate)
    anchor = F.find_fns(r'^iceoryx2::port::details::receiver::Receiver::<.*>::receiver_channels_have_data_or_borrows$')
    if not anchor:
        R.missing('Receiver::receiver_channels_have_data_or_borrows')
    R.floors['early-exit/accumulator pairs in Receiver loops'] = {'expected': 0, 'seen': n}
    if n == 0:
        R.notes.append('no OR-accumulating loop with an early exit in Receiver: nothing to judge')


def _def_term(f, kind, site):
    if kind == 'assign':
        rv = site.node[2]
        return sym_nstr(sym(f, rv[1])) if rv[0] == 'use' else None
    return '%s(%s)' % (core.short(site.callee or '?'), ', '.join(sym_nstr(sym(f, a)) for a in site.args if not (a[0] in ('c', 'm') and False)))


def fallback_differs(F, R):
    """Service resources: `x = primary; if x.is_none() { x = fallback }` - the fallback is a different expression than the primary (F: the path hint
    of a request-response resource falls back from the request storage to the RESPONSE storage; repeating the primary leaves the hint empty
    and the last owner does not remove the service's type-definition directory)."""
    n = 0
    # the fallback may live in open()/create() themselves or in a private helper of the resource module they share
    for f in [g_ for g_ in F.fn_list if g_.crate == 'iceoryx2' and g_.kind != 'closure' and re.search(r'iceoryx2::service::resource::', g_.id)]:
        for l, ds in f.defs.items():
            if not isinstance(l, int) or len(ds) != 2 or not f.local_name(l):
                continue
            terms = [_def_term(f, k, s_) for k, s_ in ds]
            if None in terms or any(t_.startswith('const:') for t_ in terms):
                continue
            # the second definition is guarded by an is_none()/is_some() test of the local itself
            second = max(ds, key=lambda d_: (d_[1].b, 0))[1]
            guarded = False
            for (b, tgt) in lib.guard_switches(f, second):
                c = sym_nstr(sym(f, f.blocks[b]['t'][1]))
                if re.search(r'is_none\(|is_some\(', c):
                    guarded = True
            if not guarded:
                continue
            n += 1
            strip = lambda t: re.sub(r'closure\{[^}]*\}', 'closure', t)
            R.ob('FLOW', 'FLOW::%s::fallback-differs-from-primary' % fnkey(f), strip(terms[0]) != strip(terms[1]), 'primary `%s` ; fallback `%s`' % (terms[0][:110], terms[1][:110]), second.where, f)
    R.floor('guarded fallback definitions in service resources', n, 1)


def _reaches(F, ty, target, seen=None, depth=0):
    seen = seen if seen is not None else set()
    acc = set()
    adts_in(ty, acc)
    for p_ in acc:
        if p_ == target:
            return True
        if p_ in seen or depth > 8:
            continue
        seen.add(p_)
        a = F.adts.get(p_)
        if a and a['crate'] == 'iceoryx2':
            for v in a['variants']:
                for fld in v['fields']:
                    if _reaches(F, fld['ty'], target, seen, depth + 1):
                        return True
    return False


def node_released_after_tag(F, R):
    """F20: the port tag lives inside the node's directory.  Dropping the last SharedNode removes that directory (remove_node -> rmdir), which
    fails while the tag is still inside and is never retried.  So in every struct that owns a `port_tag`, a SharedNode handle must be
    dropped AFTER the tag's storage: a field declared after `port_tag`, or the tag type itself owning a SharedNode behind its storage."""
    SN = 'iceoryx2::node::SharedNode'
    n = 0
    for aid, a in sorted(F.adts.items()):
        if a['crate'] != 'iceoryx2' or a['kind'] != 'struct' or not a['variants'] or not aid.startswith('iceoryx2::port::'):
            continue
        flds = a['variants'][0]['fields']
        names = [x['name'] for x in flds]
        if 'port_tag' not in names:
            continue
        n += 1
        i = names.index('port_tag')
        later = any(_reaches(F, x['ty'], SN) for x in flds[i + 1:])
        inside = False
        tt = flds[i]['ty']
        if tt[0] == 'adt' and tt[1] in F.adts and F.adts[tt[1]]['crate'] == 'iceoryx2' and F.adts[tt[1]]['variants']:
            tf = F.adts[tt[1]]['variants'][0]['fields']
            st = [k for k, x in enumerate(tf) if 'StaticStorage' in x['ty_s'] or 'static_storage' in x['ty_s']]
            if st:
                inside = any(_reaches(F, x['ty'], SN) for x in tf[st[0] + 1:])
        holds_node_before = any(_reaches(F, x['ty'], SN) for x in flds[:i])
        R.ob('FIELD-ORDER', 'FIELD-ORDER::%s::node-handle-released-after-port_tag' % aid, later or inside or not holds_node_before,
             'fields %s: a SharedNode handle %s after the tag storage; the fields before `port_tag` %s a SharedNode: when this object is the last owner the node directory is removed (rmdir) while the tag file is still inside, fails and is never retried -> <root>/nodes/<id>/ stays' % (names, 'is dropped' if (later or inside) else 'is NOT dropped', 'hold' if holds_node_before else 'do not hold'), '%s:%s' % (a['file'], a['line']))
    R.floor('structs owning a port_tag', n, 8)
    # the tag type itself: its node handle (which keeps the node directory alive) is declared behind its storage (the tag file)
    for aid, a in sorted(F.adts.items()):
        if a['crate'] != 'iceoryx2' or a['kind'] != 'struct' or not a['variants'] or not aid.startswith('iceoryx2::node::'):
            continue
        tf = a['variants'][0]['fields']
        st = [k for k, x in enumerate(tf) if 'StaticStorage' in x['ty_s'] or 'static_storage' in x['ty_s']]
        nd = [k for k, x in enumerate(tf) if _reaches(F, x['ty'], SN)]
        if st and nd and aid != SN and aid.endswith('Tag'):
            R.ob('FIELD-ORDER', 'FIELD-ORDER::%s::tag-storage-dropped-before-node-handle' % aid, min(nd) > max(st), 'fields %s: the tag file (storage) must be removed before the node handle is released - when it is the last one the node directory is removed and must be empty by then' % [x['name'] for x in tf], '%s:%s' % (a['file'], a['line']))


def receiver_storage_capacity(F, R):
    """Receiver (subscriber / server / client): the slot map that stores the connections holds the active ones AND the expired ones that still
    have undelivered data or borrowed samples: capacity(connection_storage) = capacity(connections) + capacity(to_be_removed_connections).
    A smaller storage panics ('connection storage capacity exceeded') in a live port when publishers leave while their samples are held."""
    n = 0
    for f in F.find_fns(r'^iceoryx2::port::(subscriber::Subscriber|server::Server|client::Client)::<.*>::new$'):
        for a in lib.agg_sites(f, r'port::details::receiver::Receiver$'):
            names = a.node[2][1][3]
            if not all(x in names for x in ('connection_storage', 'to_be_removed_connections', 'connections')):
                continue
            n += 1
            def inner(field, callee_pat, idx):
                t = sym(f, a.node[2][2][names.index(field)])
                sub = lib.find_subterm(t, lambda x: isinstance(x, tuple) and x and x[0] == 'call' and re.search(callee_pat, str(x[1])))
                if sub is None:
                    return None
                args = sub[2]
                return args[idx] if len(args) > idx else None
            cs = inner('connection_storage', r'^iceoryx2_bb_container::slotmap::\w+::<.*>::new$', 0)
            act = inner('connections', r'^iceoryx2_bb_container::vector::\w+::\w+::<.*>::from_fn(::<.*>)?$', 1)
            exp = inner('to_be_removed_connections', r'^iceoryx2_bb_container::vector::\w+::\w+::<.*>::new$', 1)
            ok = False
            detail = 'anchor-missing: could not extract the three capacities'
            if cs is not None and act is not None and exp is not None:
                want = core.sym_norm(('+', act, exp))
                got = core.sym_norm(cs)
                ok = sym_nstr(want) == sym_nstr(got)
                if not ok:
                    try:   # a LARGER storage is fine: compare as polynomials over the uninterpreted capacities
                        ok = core.poly_ge(core.poly(got), core.poly(want))
                    except Exception:
                        pass
                detail = 'capacity(connection_storage) = %s ; capacity(connections) + capacity(to_be_removed_connections) = %s' % (sym_nstr(got)[:110], sym_nstr(want)[:110])
            R.ob('SYM-EQ', 'SYM-EQ::%s::connection-storage-holds-active+expired' % fnkey(f), ok, detail, a.where, f)
    R.floor('Receiver constructions', n, 3)


def service_tag_removed_with_last_handle(F, R):
    """ServiceState::drop: when a node closes its last handle to a service, its service tag is removed on EVERY path (whether or not the
    service itself survives): a tag that stays keeps the node directory non-empty, so the node's own shutdown cannot remove it."""
    ds = F.find_fns(r'^<iceoryx2::service::ServiceState<.*> as core::ops::drop::Drop>::drop$')
    n = 0
    for d in ds:
        for c in lib.family(F, d):
            dereg = c.calls(r'DynamicConfig::deregister_node_id$')
            tag = c.calls(r'stale_resource_cleanup::remove_service_tag$|::remove_service_tag$')
            if not dereg:
                continue
            n += 1
            pth = c.exists_path(None, c.ret_sites(), tag, from_entry=True)
            R.ob('MUST-CALL', 'MUST-CALL::%s::remove_service_tag-on-every-path' % fnkey(c), bool(tag) and pth is None, 'every path through the last-handle closure removes the node\'s service tag (%d site(s))%s' % (len(tag), '' if pth is None else ' -- a path skips it: %s' % pth), tag[0].where if tag else '%s:%s' % (c.file, c.line), c)
    R.floor('last-handle closures of ServiceState::drop', n, 1)


def check(F, R, tier):
    service_tag_removed_with_last_handle(F, R)
    receiver_storage_capacity(F, R)
    node_released_after_tag(F, R)
    fallback_differs(F, R)
    accumulator_loops(F, R)
    port_pairing(F, R)
    node_and_service(F, R)
    owned_dependencies(F, R)


def witnesses(R, tier):
    from . import witness
    return witness.run(R, 'C17', tier)


LEVEL_TEXT = ("Decides the part of orderly shutdown the compiler does not check: every port de-registers in Drop (and nowhere else) with the handle it "
              "registered, node/service Drop reach their removal calls, markers are dropped last, and every object holding a static/raw reference into shared "
              "memory also owns what keeps that memory mapped. Drop-order permutations as histories are not decided.")
LEVEL_NOTE = "Trusted: rustc type/MIR facts; the KEEPERS table (types that keep shared memory mapped). Ownership rules enforced by the borrow checker need no rule."
TECHNIQUE = "static analysis: acquire/release pairing across constructor and Drop, type-level reachability walk over struct fields, field order, compile-fail witness"
