"""C18 - C binding: Rust->C error maps are total, wildcard-free, arm-injective, onto the declared codes and never self-recursive;
C enums are repr(C) starting at IOX2_OK+1 with printable names; union arm <-> union field agreement in every service_type
dispatch; *_drop functions drop the wrapped value once and then call the deleter."""
import re, json
from . import core, lib
from .core import sym, sym_nstr
from .lib import fnkey, agg_sites

EXPLANATION = (
    "Static rules over MIR/type facts of iceoryx2-ffi-c: MATCH-MAP enumerates the switch tree of every `impl IntoCInt for E` "
    "(leaf = constant of the target C enum, or a call to ANOTHER IntoCInt impl whose map is spliced in); the map must be free of "
    "self-recursive leaves, wildcard-free in the outer switch (a catch-all arm would silently alias future variants), arm-injective "
    "(no two arms yield the same C constant; a payload wildcard is one arm), onto the declared codes (every variant of the target C "
    "enum has a preimage or an exception row), target enums are repr(C), start at IOX2_OK + 1 and derive CStrRepr. UNION-ARM: in "
    "every FFI function a block dominated by the IPC arm of a switch on `service_type` touches only the union field `ipc` / "
    "constructor new_ipc, LOCAL only `local` / new_local (a swapped arm type-checks - both are ManuallyDrop<..> - and is type "
    "confusion). DROP-SHAPE over all iox2_*_drop: on each arm exactly one ManuallyDrop::drop/take of the wrapped value, then exactly "
    "one call through `deleter`, the latter post-dominating the former. Trace equivalence of C and Rust programs is not decided.")
NOT_DECIDED = "trace equivalence of call sequences through the C and the Rust API"

INTO = 'iceoryx2_ffi_c::api::IntoCInt'

# C enum variants that deliberately have no Rust preimage in the IntoCInt impl of the named enum
ONTO_EXCEPTIONS = {
}


def enum_map(F, fn, R, depth=0):
    """Returns (leaves, problems): leaves = list of (path-of-variant-labels, kind, value) """
    leaves, problems = [], []
    seen_paths = set()

    def label_of(b, v):
        si = fn.switch_info(b)
        labels = F.enum_labels(si['labels'][1]) if si and si.get('labels') else None
        return (labels or {}).get(v, str(v)), labels

    def walk(b, path, visited):
        if b in visited:
            problems.append('cycle at bb%d' % b)
            return
        visited = visited | {b}
        blk = fn.blocks[b]
        # leaf: assignment of a target enum constant
        for st in blk['s']:
            if st[0] == 'a' and st[2][0] == 'agg' and st[2][1][0] == 'adt' and st[2][1][1].startswith('iceoryx2_ffi_c::api::') and not st[2][2]:
                leaves.append((tuple(path), 'const', (st[2][1][1], st[2][1][2])))
                return
            # `Variant as c_int` folded to integer arithmetic: base-discriminant constant + offset
            if st[0] == 'a' and st[2][0] == 'bin' and st[2][1] == 'Add':
                ops = [st[2][2], st[2][3]]
                named = [o for o in ops if o[0] == 'k' and o[4] and re.search(r'_e::\w+::\{constant#0\}$', o[4])]
                if named and all(o[0] == 'k' and isinstance(o[3], int) for o in ops):
                    enum_p = re.sub(r'::\w+::\{constant#0\}$', '', named[0][4])
                    val = ops[0][3] + ops[1][3]
                    a = F.adts.get(enum_p)
                    var = None
                    if a:
                        for v in a['variants']:
                            if v['discr'] == val:
                                var = v['name']
                    leaves.append((tuple(path), 'const', (enum_p, var or 'value=%d' % val)))
                    return
        t = blk['t']
        if t[0] == 'switch':
            si = fn.switch_info(b)
            if si and 'discr_of' in si and si.get('labels'):
                labels = F.enum_labels(si['labels'][1]) or {}
                used = set()
                for v, tgt in t[2]:
                    lab = labels.get(v, str(v))
                    used.add(lab)
                    walk(tgt, path + [(core.short(si['labels'][1]), lab)], visited)
                rest = [l for l in set(labels.values()) if l not in used]
                oth = fn.blocks[t[3]]['t'][0]
                if oth != 'unreachable':
                    walk(t[3], path + [(core.short(si['labels'][1]), 'CATCH-ALL(%s)' % ','.join(sorted(rest)) if rest else 'CATCH-ALL')], visited)
            else:
                for v, tgt in t[2]:
                    walk(tgt, path + [('?', str(v))], visited)
                walk(t[3], path + [('?', 'otherwise')], visited)
            return
        if t[0] == 'call':
            s = fn.term_site(b)
            c = s.callee or ''
            if c.endswith('::into_c_int') or (s.callee_orig or '').endswith('IntoCInt::into_c_int'):
                leaves.append((tuple(path), 'call', c))
                return
            if re.search(r'From<.*>>::from$|Into<.*>>::into$', c):
                leaves.append((tuple(path), 'conv', c))
                return
            if t[4] is not None:
                walk(t[4], path, visited)
            return
        if t[0] in ('goto', 'drop', 'assert'):
            nxt = t[1] if t[0] == 'goto' else (t[2] if t[0] == 'drop' else t[3])
            walk(nxt, path, visited)
            return
        if t[0] == 'ret':
            leaves.append((tuple(path), 'ret', None))
    walk(0, [], frozenset())
    return leaves, problems


def match_maps(F, R):
    imps = [i for i in F.impls if i['trait'] == INTO]
    R.floor('IntoCInt impls', len(imps), 45)
    targets_used = {}
    for imp in imps:
        fid = imp['items'][0][1]
        f = F.fn_opt(fid)
        key = 'MATCH-MAP::%s::' % core.short(imp['self_s'])
        if f is None:
            R.ob('MATCH-MAP', key + 'body', False, 'anchor-missing: body of %s' % fid, '%s:%s' % (imp['file'], imp['line']))
            continue
        leaves, problems = enum_map(F, f, R)
        where = '%s:%s' % (f.file, f.line)
        # (1) self recursion
        rec = [l for l in leaves if l[1] == 'call' and l[2] == f.id]
        for l in rec:
            R.ob('MATCH-MAP', key + 'self-recursive-leaf', False, 'arm %s calls the same impl on the same value: unconditional recursion (stack overflow) instead of a C code' % [x[1] for x in l[0]], where, f)
        if not rec:
            R.ob('MATCH-MAP', key + 'no-self-recursion', True, '%d leaves, none calls its own impl' % len(leaves), where, f)
        # (2) wildcard-free outer switch
        catch = [l for l in leaves if any(x[1].startswith('CATCH-ALL') and x[1].count(',') >= 1 for x in l[0][:1])]
        R.ob('MATCH-MAP', key + 'wildcard-free', not catch, 'outer match has %s' % ('no catch-all arm covering several variants' if not catch else 'a catch-all arm %s aliasing several variants to one code' % [x[1] for x in catch[0][0]]), where, f)
        # (3) arm-injective over constants
        consts = [l for l in leaves if l[1] == 'const']
        by = {}
        for l in consts:
            by.setdefault(l[2], []).append(l[0])
        dup = {k: v for k, v in by.items() if len(v) > 1}
        R.ob('MATCH-MAP', key + 'arm-injective', not dup, '%d constant leaves; duplicates: %s' % (len(consts), {k[1]: [[x[1] for x in p] for p in v] for k, v in dup.items()}), where, f)
        # (4) one target enum, repr(C), starts at 1, onto
        tgts = set(l[2][0] for l in consts)
        if consts:
            R.ob('MATCH-MAP', key + 'single-target-enum', len(tgts) == 1, 'target C enums: %s' % sorted(core.short(t) for t in tgts), where, f)
        for tg in tgts:
            a = F.adts.get(tg)
            if not a:
                continue
            targets_used.setdefault(tg, set()).update(l[2][1] for l in consts)
        calls = [l for l in leaves if l[1] in ('call', 'conv') and l[2] != f.id]
        if not consts and not calls and not rec:
            R.ob('MATCH-MAP', key + 'shape', False, 'not analysable: no constant / delegating leaves found (%s)' % problems, where, f)
    # C codes that FFI functions construct directly (without going through an IntoCInt impl)
    built_elsewhere = set()
    for g in F.fn_list:
        if g.crate != 'iceoryx2_ffi_c' or g.name == 'into_c_int':
            continue
        for s in g.sites:
            n_ = s.node
            if s.i != 'T' and n_[0] == 'a' and n_[2][0] == 'agg' and n_[2][1][0] == 'adt' and n_[2][1][1].endswith('_e'):
                built_elsewhere.add((n_[2][1][1], n_[2][1][2]))
            if s.i != 'T' and n_[0] == 'a' and n_[2][0] in ('use', 'cast', 'bin'):
                for o in n_[2][1:]:
                    if isinstance(o, list) and o and o[0] == 'k' and o[4] and re.search(r'_e::\w+::\{constant#0\}$', o[4]):
                        pass
    # target enums
    n = 0
    for tg, used in sorted(targets_used.items()):
        a = F.adts[tg]
        n += 1
        names = [v['name'] for v in a['variants']]
        discr = [v['discr'] for v in a['variants']]
        where = '%s:%s' % (a['file'], a['line'])
        R.ob('CONST', 'CONST::%s::repr(C)' % tg, a['repr_c'], 'C error enum is #[repr(C)]', where)
        R.ob('CONST', 'CONST::%s::starts-after-IOX2_OK' % tg, bool(discr) and min(discr) == 1 and len(set(discr)) == len(discr), 'discriminants %s..%s, distinct, first = IOX2_OK + 1 (no error equals success)' % (min(discr) if discr else None, max(discr) if discr else None), where)
        missing = [x for x in names if x not in used and (tg, x) not in ONTO_EXCEPTIONS and (tg, x) not in built_elsewhere]
        # enums that are targets of several impls (composite) accumulate
        # informational only: the property asks for a total, one-to-one map, not for an onto map
        R.ob('INFO', 'INFO::%s::codes-without-producer' % tg, True, 'declared C codes never produced by any mapping or FFI function: %s' % missing, where)
        if re.search(r'(error|failure)_e$', tg):
            cstr = [i for i in F.impls if i['self'][0] == 'adt' and i['self'][1] == tg and i['trait'] and i['trait'].endswith('as_cstr::AsCStr')]
            R.ob('CONST', 'CONST::%s::CStrRepr' % tg, len(cstr) == 1, 'printable names via #[derive(CStrRepr)] -> impl AsCStr (variant identifiers, distinct by construction)', where)
    R.floor('target C error enums', n, 38)


def scan_fields(node, acc):
    if isinstance(node, list):
        if node and isinstance(node[0], int) and all(isinstance(x, str) for x in node[1:]):
            for x in node[1:]:
                if x in ('.ipc', '.local'):
                    acc.append(x[1:])
            return
        for x in node:
            scan_fields(x, acc)
    elif isinstance(node, dict):
        for v in node.values():
            scan_fields(v, acc)


def union_arms(F, R):
    nsw = narm = nbad = 0
    for f in F.fn_list:
        if f.crate != 'iceoryx2_ffi_c':
            continue
        for b in range(len(f.blocks)):
            si = f.switch_info(b)
            if not si or not (si.get('enum_ty') or '').endswith('iox2_service_type_e'):
                continue
            nsw += 1
            for lab, tgt in lib.arm_blocks(f, b, lambda l: l in ('IPC', 'LOCAL'), F):
                narm += 1
                want = lab.lower()
                region = [x for x in f.reachable(tgt) if f.edge_dominates(b, tgt, x)]
                bad = []
                for rb in region:
                    blk = f.blocks[rb]
                    acc = []
                    for st in blk['s']:
                        scan_fields(st[:-1], acc)
                    t = blk['t']
                    scan_fields(t[:-1] if t[0] in ('call', 'switch', 'drop') else [], acc)
                    if t[0] == 'call' and isinstance(t[1], dict) and t[1].get('d'):
                        m = re.search(r'::new_(ipc|local)$', t[1]['d'])
                        if m:
                            acc.append(m.group(1))
                    for a in acc:
                        if a != want:
                            bad.append((rb, a))
                if bad:
                    nbad += 1
                    R.ob('UNION-ARM', 'UNION-ARM::%s::%s-arm' % (fnkey(f), lab), False, 'the %s arm of the match on service_type touches union field/constructor `%s` (type confusion: both are ManuallyDrop<..>)' % (lab, sorted(set(x[1] for x in bad))), f.term_site(b).where, f)
    R.ob('UNION-ARM', 'UNION-ARM::summary', nbad == 0, '%d service_type dispatches / %d arms examined, %d deviant' % (nsw, narm, nbad), 'iceoryx2-ffi/c/src/api')
    R.floor('service_type dispatch sites', nsw, 300)
    R.floor('service_type arms', narm, 600)


def drop_shape(F, R):
    n = 0
    for f in F.fn_list:
        if f.crate != 'iceoryx2_ffi_c' or f.kind != 'fn' or not re.search(r'::iox2_\w+_drop$', f.id):
            continue
        n += 1
        key = 'DROP-SHAPE::%s' % fnkey(f)
        drops = f.calls(r'ManuallyDrop::<.*>::(drop|take)$|core::ptr::drop_in_place$|core::mem::drop$')
        deleter = [s for s in f.sites if s.is_call and s.callee is None and 'deleter' in f.chain(s.node[1]['p'])]
        sw = [b for b in range(len(f.blocks)) if (f.switch_info(b) or {}).get('enum_ty', '') and f.switch_info(b)['enum_ty'].endswith('iox2_service_type_e')]
        if not deleter:
            R.ob('DROP-SHAPE', key, False, 'no call through `deleter`', '%s:%s' % (f.file, f.line), f)
            continue
        ok = len(deleter) == 1 or (len(deleter) == 2 and len(sw) == 1)
        detail = '%d drop site(s), %d deleter call(s)' % (len(drops), len(deleter))
        # deleter post-dominates every drop and is never followed by a drop
        for d in drops:
            if f.exists_path(d, f.ret_sites(), deleter) is not None:
                ok = False
                detail += '; a path from %s to return skips the deleter' % lib.desc(d)
            if f.exists_path(deleter[0], [d], []) is not None:
                ok = False
                detail += '; %s is reachable after the deleter (use after free)' % lib.desc(d)
        if sw:
            for b in sw:
                for lab, tgt in lib.arm_blocks(f, b, lambda l: l in ('IPC', 'LOCAL'), F):
                    on_arm = [d for d in drops if f.edge_dominates(b, tgt, d.b)]
                    if len(on_arm) != 1:
                        ok = False
                        detail += '; %s arm has %d drops of the wrapped value' % (lab, len(on_arm))
        elif len(drops) > 1:
            ok = False
            detail += '; several drops without a service_type dispatch'
        # every path from entry to return passes the deleter (unless the handle was already taken: `if let Some(h) = x.take()`)
        takes = f.calls(r'::take$')
        if f.exists_path(None, f.ret_sites(), deleter, from_entry=True) is not None and not (takes and f.exists_path(None, f.ret_sites(), deleter + takes, from_entry=True) is None):
            ok = False
            detail += '; a path to return avoids the deleter (leak)'
        R.ob('DROP-SHAPE', key, ok, detail, '%s:%s' % (f.file, f.line), f)
    R.floor('iox2_*_drop functions', n, 50)


def consumed_handles(F, R):
    """A C function that consumes a handle (send, create-from-builder, update, discard ...) frees the handle's storage through its `deleter` on
    EVERY path to a return, error paths included: the caller has no legal way to free a consumed handle afterwards."""
    n = 0
    for f in F.fn_list:
        if f.crate != 'iceoryx2_ffi_c' or f.kind != 'fn' or re.search(r'::iox2_\w+_drop$', f.id):
            continue
        deleter = [s for s in f.sites if s.is_call and s.callee is None and 'deleter' in f.chain(s.node[1]['p'])]
        fromarg = [d for d in deleter if any(x.startswith('arg:') for x in lib.origins(f, d.node[1]['p']))]
        if not fromarg:
            continue
        n += 1
        pth = f.exists_path(None, f.ret_sites(), fromarg, from_entry=True)
        R.ob('MUST-CALL', 'MUST-CALL::%s::consumed-handle-freed-on-every-path' % fnkey(f), pth is None, 'the deleter of the consumed handle (%d call site(s)) lies on every path from entry to a return%s' % (len(fromarg), '' if pth is None else ' -- a path skips it (handle storage leaks): %s' % pth), fromarg[0].where, f)
    R.floor('handle-consuming C functions', n, 19)


def arms_free_alike(F, R):
    """Every C function dispatches on the service type (IPC / LOCAL) with two arms that do the same thing on different union members.  The two
    arms call a handle `deleter` equally often (error clean-up of freshly allocated handle storage included): an arm that lost a deleter
    call leaks the storage for that service type only."""
    n = nbad = 0
    for f in F.fn_list:
        if f.crate != 'iceoryx2_ffi_c' or f.kind != 'fn':
            continue
        deleter = [s_ for s_ in f.sites if s_.is_call and s_.callee is None and 'deleter' in f.chain(s_.node[1]['p'])]
        if not deleter:
            continue
        for b in range(len(f.blocks)):
            si = f.switch_info(b) or {}
            if not (si.get('enum_ty', '') or '').endswith('iox2_service_type_e'):
                continue
            arms = dict(lib.arm_blocks(f, b, lambda l: l in ('IPC', 'LOCAL'), F))
            if len(arms) != 2 or arms['IPC'] == arms['LOCAL']:
                continue
            cnt = {lab: len([d for d in deleter if f.edge_dominates(b, tgt, d.b)]) for lab, tgt in arms.items()}
            if not any(cnt.values()):
                continue
            n += 1
            ok = cnt['IPC'] == cnt['LOCAL']
            if not ok:
                nbad += 1
            R.ob('SIBLINGS', 'SIBLINGS::%s::IPC-and-LOCAL-arms-free-alike#bb%d' % (fnkey(f), b) if not ok else 'SIBLINGS::%s::IPC-and-LOCAL-arms-free-alike' % fnkey(f), ok, 'deleter calls under the IPC arm: %d, under the LOCAL arm: %d' % (cnt['IPC'], cnt['LOCAL']), f.term_site(b).where, f)
    R.floor('service_type dispatches with deleter calls in their arms', n, 8)


def payload_passthrough(F, R):
    n = 0
    for f in F.fn_list:
        if f.crate != 'iceoryx2_ffi_c' or not re.search(r'::iox2_publisher_loan_slice_uninit$', f.id):
            continue
        for c in f.calls(r'::loan_custom_payload$'):
            n += 1
            t = sym_nstr(sym(f, c.args[1]))
            R.ob('FLOW', 'FLOW::%s::element-count-unchanged' % fnkey(f), t == 'number_of_elements', 'loan_custom_payload(%s): the caller\'s element count is passed on unchanged' % t, c.where, f)
    R.floor('loan_custom_payload sites in iox2_publisher_loan_slice_uninit', n, 2)


def check(F, R, tier):
    match_maps(F, R)
    union_arms(F, R)
    drop_shape(F, R)
    consumed_handles(F, R)
    arms_free_alike(F, R)
    # the type-erased receive path behind iox2_pending_response_receive() filters stale responses exactly like the typed Rust paths
    from . import C11 as _C11
    _C11.stale_response_filter(F, R)
    payload_passthrough(F, R)


LEVEL_TEXT = ("Decides for every Rust->C error mapping: no self-recursive leaf, wildcard-free, arm-injective, onto the declared codes, repr(C) codes "
              "starting after IOX2_OK with printable names; for every service_type dispatch: arm and union field agree; for every *_drop: one drop then "
              "the deleter. These make the error projection total/one-to-one and handle release exact; trace equivalence is not decided.")
LEVEL_NOTE = "Trusted: rustc MIR/type facts; ONTO_EXCEPTIONS rows. Not decided: behavioural equivalence of C and Rust call sequences."
TECHNIQUE = "static analysis: switch-tree enumeration of error maps, union-arm agreement over dominated regions, drop-shape rules over sibling FFI functions"

THOROUGH_UNIVERSES = []   # the C binding does not build without std; dev_permissions does not touch it
