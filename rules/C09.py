"""C09 - concurrent index allocation: CAS/load ordering floors on the tagged free-list head, ABA tag bump on every CAS,
bounds/lock re-checks inside the retry loops, generation bump after every owner-cell change, lock only on a bracketed scan;
pool allocator exclusivity delegated to the index set."""
import re
from . import core, lib
from .core import sym, sym_nstr, sym_norm
from .lib import ord_floor, dom, pdom, no_path, atomics, raw, sites_of, fnkey, agg_sites, loop_recheck, const_arg

EXPLANATION = (
    "Static rules over MIR: ORD floors on the packed head word (loads that feed the read of a `next` cell another thread "
    "published are acquire; the CAS that publishes `next[index]` is release); FLOW/SYM-EQ: the ABA field of the CAS's new value "
    "is wrapping_add(old.aba, c != 0) and pack/unpack use the same shifts; LOOP: the capacity and lock tests are re-evaluated "
    "between two CAS attempts; PDOM: each successful owner-cell CAS is followed by increment_generation_counter on all paths, "
    "called with a release ordering (CONST-ARG); ONLY-UNDER: the lock CAS lies under borrowed_indices == 0 of a bracketed scan. "
    "Necessary conditions of exclusivity/leak-freedom; exclusivity under all interleavings is not decided.")
NOT_DECIDED = "exclusivity, boundedness and leak-freedom under all interleavings"

U = 'iceoryx2_bb_lock_free::mpmc::unique_index_set::'
RU = 'iceoryx2_bb_lock_free::mpmc::robust_unique_index_set::RobustUniqueIndexSet::'
PA = 'iceoryx2_bb_memory::pool_allocator::PoolAllocator'


def cas_new_value_term(fn, cas):
    return sym_norm(sym(fn, cas.site.args[2]))


def unique_index_set(F, R):
    acq = F.fn(U + 'UniqueIndexSet::acquire_raw_index')
    rel = F.fn(U + 'UniqueIndexSet::release_raw_index')
    # ---- ORD
    ord_floor(R, acq, r'^self\.head$', 'load', 0, 'A', 'feeds the read of next[head] published by a releasing thread')
    cas_a = ord_floor(R, acq, r'^self\.head$', 'compare_exchange(_weak)?', 1, 'A', 'the reloaded head feeds the read of next[head]')
    cas_r = ord_floor(R, rel, r'^self\.head$', 'compare_exchange(_weak)?', 0, 'R', 'publishes next[index] = old.head to the next acquirer')
    # ---- next[index] written before every CAS attempt in release
    nx_w = [s for s in rel.sites if s.i != 'T' and s.node[0] == 'a' and '*' in s.node[1][1:] and
            rel.prov_place(s.node[1]).root[0] == 'call' and (rel.prov_place(s.node[1]).root[1].callee or '').endswith('get_next_free_index')]
    dom(R, rel, nx_w, sites_of(cas_r), 'next[index]-write<CAS(head)', 'the link must exist before the index becomes head')
    loop_recheck(R, rel, sites_of(cas_r), nx_w, 'next[index]-rewritten-per-attempt', 'a retry must link to the re-loaded head')
    # ---- ABA tag
    for fn, cass in ((acq, cas_a), (rel, cas_r)):
        for c in cass:
            t = cas_new_value_term(fn, c)
            key = 'FLOW::%s::aba-tag-incremented' % fnkey(fn)
            agg = lib.find_subterm(t, lambda x: x[0] == 'agg' and x[1].endswith('HeadDetails::HeadDetails'))
            ok = False
            detail = 'CAS new value = %s' % sym_nstr(t)
            if agg is not None:
                hd = F.adt(U + 'HeadDetails')
                names = [f['name'] for f in hd['variants'][0]['fields']]
                if 'aba' in names:
                    aba = agg[2][names.index('aba')]
                    detail = 'aba field of the new head = %s' % sym_nstr(aba)
                    if aba[0] == 'call' and 'wrapping_add' in aba[1] and len(aba[2]) == 2:
                        base, inc = aba[2]
                        ok = inc[0] == 'c' and inc[1] % 65536 != 0 and 'aba' in sym_nstr(base)
            R.ob('FLOW', key, ok, detail + ' ; required wrapping_add(old.aba, c) with c != 0 (mod 2^16)', c.site.where, fn)
    # ---- bounds + lock tests re-checked in the acquire loop
    oo = agg_sites(acq, r'UniqueIndexSetAcquireFailure$', 'OutOfIndices')
    lk = agg_sites(acq, r'UniqueIndexSetAcquireFailure$', 'IsLocked')
    for nm, errs in (('OutOfIndices', oo), ('IsLocked', lk)):
        key = 'LOOP::%s::%s-test-before-every-CAS' % (fnkey(acq), nm)
        if not errs:
            R.ob('LOOP', key, False, 'anchor-missing: no Err(%s) exit' % nm, acq.file, acq)
            continue
        gs = lib.guard_switches(acq, errs[0])
        if not gs:
            R.ob('LOOP', key, False, 'no guarding test found for Err(%s)' % nm, errs[0].where, acq)
            continue
        gsite = acq.term_site(gs[0][0])
        ok1 = all(acq.dominates(gsite, c.site) for c in cas_a)
        p = None
        for c in cas_a:
            p = p or acq.exists_path(c.site, sites_of(cas_a), [gsite])
        R.ob('LOOP', key, ok1 and p is None, 'the %s test (L%s) dominates the head CAS and is re-evaluated after every failed CAS%s' % (nm, gsite.line, '' if p is None else ' -- bypass via blocks %s' % p), gsite.where, acq)
    # the out-of-indices test compares head against capacity (>=)
    if oo:
        gs = lib.guard_switches(acq, oo[0])
        if gs:
            t = sym_norm(sym(acq, acq.blocks[gs[0][0]]['t'][1]))
            s_ = sym_nstr(t)
            ok = t[0] in ('>=', '<') and 'head' in s_ and 'self.capacity' in s_
            R.ob('SYM-EQ', 'SYM-EQ::%s::bounds-test-shape' % fnkey(acq), ok, 'bounds test is `%s`; required head >= self.capacity (or its negation)' % s_, acq.term_site(gs[0][0]).where, acq)
    # ---- pack / unpack agreement
    frm = F.fn(U + 'HeadDetails::from')
    val = F.fn(U + 'HeadDetails::value')
    tv = sym_norm(core.sym_place(val, [0]))
    tf = core.sym_place(frm, [0])
    hd = F.adt(U + 'HeadDetails')
    names = [f['name'] for f in hd['variants'][0]['fields']]
    if tf[0] != 'agg':
        R.ob('SYM-EQ', 'SYM-EQ::%s::shape' % fnkey(frm), False, 'HeadDetails::from is not a single aggregate: %s' % core.sym_str(tf), frm.file, frm)
    else:
        for i, nme in enumerate(names):
            unpack = lib.shift_path(sym_norm(tf[2][i]), lambda x: x == ('s', 'value'))
            pack = lib.shift_path(tv, lambda x, nme=nme: x == ('s', 'self.' + nme))
            key = 'SYM-EQ::%s::pack-unpack-%s' % (core.strip_generics(U + 'HeadDetails'), nme)
            if unpack is None or pack is None:
                R.ob('SYM-EQ', key, False, 'field %s not found in pack (%s) / unpack (%s)' % (nme, sym_nstr(tv), sym_nstr(tf[2][i])), frm.file, frm)
                continue
            sh_p = sum(c for (o, c) in pack if o == '<<') - sum(c for (o, c) in pack if o == '>>')
            sh_u = sum(c for (o, c) in unpack if o == '>>') - sum(c for (o, c) in unpack if o == '<<')
            R.ob('SYM-EQ', key, sh_p == sh_u, 'value() shifts %s left by %d, from() shifts right by %d (pack %s / unpack %s)' % (nme, sh_p, sh_u, pack, unpack), '%s:%s' % (val.file, val.line), val)
    # ---- lock-if-last: LOCK_ACQUIRE only under mode == LockIfLastIndex && borrowed == 1
    lsites = lib.const_sites(rel, r'LOCK_ACQUIRE$')
    key = 'ONLY-UNDER::%s::LOCK_ACQUIRE-under-last-index' % fnkey(rel)
    if not lsites:
        R.ob('ONLY-UNDER', key, False, 'anchor-missing: LOCK_ACQUIRE not used in release_raw_index', rel.file, rel)
    for ls in lsites:
        conds = lib.path_conds(rel, ls, F)
        ok = any(re.search(r'borrowed_indices == 1\)$', c) for c in conds) and any(('LockIfLastIndex' in c and ('==' in c or ' is ' in c) and '!=' not in c) for c in conds)
        R.ob('ONLY-UNDER', key, ok, 'LOCK_ACQUIRE is selected under conditions %s; required mode == LockIfLastIndex && borrowed_indices == 1' % conds, ls.where, rel)


def robust(F, R):
    acq, rel, rec = F.fn(RU + 'acquire'), F.fn(RU + 'release'), F.fn(RU + 'recover')
    inc_pat = r'RobustUniqueIndexSet::increment_generation_counter$'
    n_inc = 0
    for fn, nm in ((acq, 'acquire'), (rel, 'release'), (rec, 'recover')):
        cell_cas = [a for a in atomics(fn, None, 'compare_exchange(_weak)?') if 'generation_counter' not in a.recv]
        incs = fn.calls(inc_pat)
        key = 'cell-CAS-ok|>increment_generation_counter'
        if len(cell_cas) != 1:
            R.ob('PDOM', 'PDOM::%s::%s' % (fnkey(fn), key), False, 'anchor-missing: expected one owner-cell CAS, found %d' % len(cell_cas), fn.file, fn)
            continue
        c = cell_cas[0].site
        # Ok arm of the CAS result (match / if-let / .is_ok() / !.is_err())
        oks = lib.arm_edges(fn, F, c, ('Ok',))
        if not oks:
            R.ob('PDOM', 'PDOM::%s::%s' % (fnkey(fn), key), False, 'no Ok arm of the owner-cell CAS found', c.where, fn)
            continue
        for (b, tgt) in oks:
            start = core.Site(fn, tgt, -1, ['arm-entry', c.line])
            goals = fn.ret_sites() + [c]
            p = fn.exists_path(core.Site(fn, tgt, -1, ['x']), goals, incs) if incs else [tgt]
            # exists_path starts *after* the start position: position -1 means from the top of tgt
            R.ob('PDOM', 'PDOM::%s::%s' % (fnkey(fn), key), p is None,
                 'after a successful owner-cell CAS (L%s) every path to a return or to the next cell CAS passes increment_generation_counter%s' % (c.line, '' if p is None else ' -- escaping via blocks %s' % p), c.where, fn)
        for i in incs:
            n_inc += 1
            o = fn.ordering_of(i.args[1])
            R.ob('CONST-ARG', 'CONST-ARG::%s::increment_generation_counter-ordering' % fnkey(fn), o in core.ORD_REL,
                 'increment_generation_counter(%s); required release (orders the cell change before the generation bump)' % o, i.where, fn)
    bi = F.fn(RU + 'borrowed_indices_and_generation_counter')
    for i in bi.calls(inc_pat):
        n_inc += 1
        o = bi.ordering_of(i.args[1])
        R.ob('CONST-ARG', 'CONST-ARG::%s::increment_generation_counter-ordering' % fnkey(bi), o in core.ORD_REL, 'increment_generation_counter(%s); required release' % o, i.where, bi)
    R.floor('increment_generation_counter call sites', n_inc, 4)
    # a cell is given back only by a compare_exchange that expects the owner that was judged (release: the caller's id; recover: the id the
    # predicate saw): a blind store / swap frees the cell of whoever owns it by then (a live owner that re-acquired the slot in between)
    for fn, nm in ((rel, 'release'), (rec, 'recover')):
        blind = [a for a in fn.atomic_ops() if a.op in ('store', 'swap', 'fetch_and', 'fetch_or') and 'generation_counter' not in a.recv and 'cell' in a.recv]
        cas_ = [a for a in atomics(fn, None, 'compare_exchange(_weak)?') if 'generation_counter' not in a.recv]
        exp_ok = all('EMPTY' not in sym_nstr(sym(fn, a.site.args[1])) for a in cas_)
        R.ob('WHO-MAY-CALL', 'WHO-MAY-CALL::%s::cell-freed-only-by-owner-CAS' % fnkey(fn), bool(cas_) and not blind and exp_ok, '%s(): the owner cell is reset by compare_exchange(<judged owner>, EMPTY) (%d site(s), expected value %s) and never by a blind store/swap (%d found)' % (nm, len(cas_), [sym_nstr(sym(fn, a.site.args[1]))[:40] for a in cas_], len(blind)), (cas_[0].site.where if cas_ else (blind[0].site.where if blind else fn.file)), fn)
    inc = F.fn(RU + 'increment_generation_counter')
    cs = atomics(inc, r'^self\.generation_counter$', 'compare_exchange(_weak)?')
    R.ob('CONST-ARG', 'CONST-ARG::%s::ordering-forwarded' % fnkey(inc), len(cs) == 1 and cs[0].ords[0] == 'param:2',
         'the generation CAS uses the caller-provided ordering (%s)' % (cs[0].ords if cs else 'none'), cs[0].site.where if cs else inc.file, inc)
    # bracketed scan: acquire-load of the generation precedes the scan, increment follows, result accepted only if initial+1 == new
    ld = ord_floor(R, bi, r'^self\.generation_counter$', 'load', 0, 'A', 'opens the bracket: cell reads must not move before it')
    cells = [a.site for a in atomics(bi, None, 'load') if 'generation_counter' not in a.recv]
    incs = bi.calls(inc_pat)
    dom(R, bi, sites_of(ld), cells, 'generation-load<cell-scan', 'bracket opens before the scan')
    dom(R, bi, cells, incs, 'cell-scan<generation-increment', 'bracket closes after the scan') if False else None
    # every return of a non-locked state is preceded by the increment
    dom(R, bi, sites_of(ld), incs, 'generation-load<increment', 'bracket order')
    aggs = agg_sites(bi, r'SetState$')
    scan_aggs = [a for a in aggs if any(bi.dominates(i, a) for i in incs)]
    ok = False
    detail = 'no SetState built after the increment'
    for a in scan_aggs:
        conds = lib.path_conds(bi, a, F)
        detail = 'scan result returned under %s' % conds
        ok = any(' == ' in c and 'increment_generation_counter(' in c and re.search(r'\(Atomic::load\(self\.generation_counter[^)]*\) \+ 1\)|\(1 \+ Atomic::load\(self\.generation_counter', c) for c in conds)
    R.ob('ONLY-UNDER', 'ONLY-UNDER::%s::scan-accepted-only-if-generation-advanced-by-one' % fnkey(bi), ok, detail, scan_aggs[0].where if scan_aggs else bi.file, bi)
    # lock(): CAS to the lock indicator only under borrowed_indices == 0, expected = generation of the same scan
    lock = F.fn(RU + 'lock')
    lc = atomics(lock, r'^self\.generation_counter$', 'compare_exchange(_weak)?')
    key = 'ONLY-UNDER::%s::lock-CAS-under-borrowed==0' % fnkey(lock)
    if len(lc) != 1:
        R.ob('ONLY-UNDER', key, False, 'anchor-missing: lock CAS', lock.file, lock)
    else:
        conds = lib.path_conds(lock, lc[0].site, F)
        R.ob('ONLY-UNDER', key, any(re.search(r'borrowed_indices == 0\)$', c) for c in conds),
             'lock CAS guarded by %s; required state.borrowed_indices == 0' % conds, lc[0].site.where, lock)
        exp = sym_nstr(sym(lock, lc[0].site.args[1]))
        new = sym_nstr(sym(lock, lc[0].site.args[2]))
        R.ob('FLOW', 'FLOW::%s::lock-CAS-expected=scan-generation' % fnkey(lock), 'borrowed_indices_and_generation_counter' in exp and 'generation_counter' in exp,
             'lock CAS expects `%s`; required the generation returned by the same bracketed scan' % exp, lc[0].site.where, lock)
        R.ob('CONST-ARG', 'CONST-ARG::%s::lock-CAS-new=LOCK_INDICATOR' % fnkey(lock), 'GENERATION_COUNTER_LOCK_INDICATOR' in new or new == str(2**64 - 1),
             'lock CAS installs `%s`' % new, lc[0].site.where, lock)
    # acquire(): Ok(n) only after the increment did not report the lock indicator
    oks = [s for s in acq.ok_exit_sites()]
    incs = acq.calls(inc_pat)
    dom(R, acq, incs, oks, 'increment<Ok(n)', 'an index is handed out only after its generation bump was accepted')
    for o in oks:
        conds = lib.path_conds(acq, o, F)
        ok_ = any('increment_generation_counter(' in c and ('18446744073709551615' in c or 'LOCK_INDICATOR' in c) and ' != ' in c for c in conds)
        R.ob('ONLY-UNDER', 'ONLY-UNDER::%s::Ok(n)-only-if-increment-not-locked' % fnkey(acq), ok_,
             'Ok(n) is returned under %s ; required a test of the increment result against GENERATION_COUNTER_LOCK_INDICATOR (after the last release locked the set no acquire may succeed)' % [c[:110] for c in conds if 'increment' in c or 'LOCK' in c or '1844' in c], o.where, acq)
        locked = lib.agg_sites(acq, r'UniqueIndexSetAcquireFailure$', 'IsLocked')
        R.ob('FLOOR', 'floor::%s::IsLocked exits' % fnkey(acq), len(locked) >= 2, '%d IsLocked refusals (before the scan and after a bump that hit the lock)' % len(locked), acq.file, acq)
    ord_floor(R, acq, r'^self\.generation_counter$', 'load', 0, 'A', 'SYNC POINT: generation read before the cell scan')


def pool(F, R):
    cands = [f for f in F.find_fns(r'^iceoryx2_bb_memory::pool_allocator::PoolAllocator::deallocate_bucket$')]
    if len(cands) != 1:
        R.missing('PoolAllocator::deallocate_bucket')
        return
    de = cands[0]
    rs = de.calls(r'UniqueIndexSet::release_raw_index$')
    key = 'FLOW::%s::releases-get_index(ptr)' % fnkey(de)
    if len(rs) != 1:
        R.ob('FLOW', key, False, 'anchor-missing: release_raw_index call', de.file, de)
    else:
        t = sym_nstr(sym(de, rs[0].args[1]))
        R.ob('FLOW', key, lib.has_origin(de, rs[0].args[1], r'::get_index$', ('ptr', 2)), 'released index = %s ; required get_index(ptr)' % t, rs[0].where, de)
        const_arg(R, de, rs[0], 2, {'Default'}, 'release-mode', 'a locked bucket set would refuse all later allocations')
    al = [f for f in F.find_fns(r'^<iceoryx2_bb_memory::pool_allocator::PoolAllocator as iceoryx2_bb_elementary_traits::allocator::Allocate<.*>>::allocate$')]
    if len(al) != 1:
        R.missing('PoolAllocator Allocate::allocate')
        return
    al = al[0]
    acqs = al.calls(r'UniqueIndexSet::acquire_raw_index$')
    oks = al.ok_exit_sites()
    dom(R, al, acqs, oks, 'acquire_raw_index<Ok(ptr)', 'a bucket is handed out only after its index was acquired exclusively')
    for o in oks:
        t = sym_nstr(sym(al, o.node[2][2][0]))
        R.ob('FLOW', 'FLOW::%s::address-from-acquired-index' % fnkey(al), 'acquire_raw_index' in t, 'returned address = %s ; must derive from the acquired index' % t, o.where, al)


def check(F, R, tier):
    lib.cas_loops_fresh(R, F, r'^iceoryx2_bb_lock_free::mpmc::(robust_)?unique_index_set::', 7, 'a decision computed once before the loop is stale after the first failed CAS')
    unique_index_set(F, R)
    robust(F, R)
    pool(F, R)


LEVEL_TEXT = ("Decides on all CFG paths: acquire/release floors on the tagged head and generation counter, ABA tag bump on every CAS, "
              "re-evaluation of bounds/lock tests per retry, generation bump after every owner-cell change, lock only on a bracketed scan, "
              "pool allocator hands out only indices obtained from the set. Necessary conditions; interleaving-level exclusivity is not decided.")
LEVEL_NOTE = "Trusted: rustc MIR; floor table of DESIGN.md C09. Not decided: exclusivity over all schedules / weak-memory executions as a whole."
TECHNIQUE = "static analysis: MIR ordering-constant rules, loop re-check path rules, symbolic ABA/pack-unpack terms (custom rustc driver)"
