"""Generic rule kinds (DESIGN.md section 3) expressed over core.Fn / core.Report."""
import re
from . import core
from .core import ORD_ACQ, ORD_REL, ORD_SC

FLOORSET = {'A': ORD_ACQ, 'R': ORD_REL, 'SC': ORD_SC}


def fkey(fn):
    return core.short(fn.id) if fn.kind != 'closure' else re.sub(r'<[^<>]*>', '', fn.id).split('::', 1)[-1]


def fnkey(fn):
    """Stable, line-free key of a function: its def path without generic args."""
    return core.strip_generics(fn.id)


def atomics(fn, recv=None, op=None):
    out = []
    for a in fn.atomic_ops():
        if recv is not None and not re.search(recv, a.recv):
            continue
        if op is not None and not re.fullmatch(op, a.op):
            continue
        out.append(a)
    return out


def ord_floor(R, fn, recv, op, which, floor, why, min_sites=1):
    """ORD: every atomic `op` on receiver `recv` in `fn` has ordering[which] in the floor class.
    which: 0 = (success) ordering, 1 = failure ordering of a CAS."""
    sites = atomics(fn, recv, op)
    key = 'ORD::%s::%s.%s[%s]>=%s' % (fnkey(fn), recv, op, 'failure' if which == 1 else 'order', floor)
    if len(sites) < min_sites:
        R.ob('ORD', key, False, 'anchor-missing: no atomic %s on %s in %s' % (op, recv, fn.id), fn.file, fn)
        return []
    for a in sites:
        o = a.ords[which] if which < len(a.ords) else 'missing'
        ok = o in FLOORSET[floor]
        R.ob('ORD', key, ok, '%s @%s ordering=%s floor=%s (%s)' % (a.op, a.recv, o, floor, why), a.site.where, fn)
    R.call_sites += len(sites)
    return sites


def dom(R, fn, A, B, key, why='', need_b=True):
    """DOM(A < B): every site in B is dominated by some site in A."""
    k = 'DOM::%s::%s' % (fnkey(fn), key)
    if not A:
        R.ob('DOM', k, False, 'anchor-missing: no "before" site (%s)' % why, fn.file, fn)
        return False
    if not B:
        if need_b:
            R.ob('DOM', k, False, 'anchor-missing: no "after" site (%s)' % why, fn.file, fn)
            return False
        return True
    allok = True
    for b in B:
        ok = any(fn.dominates(a, b) for a in A)
        allok &= ok
        R.ob('DOM', k, ok, '%s must be dominated by %s; %s' % (desc(b), ', '.join(desc(a) for a in A[:3]), why), b.where, fn)
    return allok


def pdom(R, fn, A, B, key, why=''):
    """PDOM(A |> B): every normal path from a site in A to a return passes a site in B.
    Evaluated as: no path from A to a return avoiding all B."""
    k = 'PDOM::%s::%s' % (fnkey(fn), key)
    if not A:
        R.ob('PDOM', k, False, 'anchor-missing: no start site (%s)' % why, fn.file, fn)
        return False
    if not B:
        R.ob('PDOM', k, False, 'anchor-missing: no required site (%s)' % why, fn.file, fn)
        return False
    allok = True
    rets = fn.ret_sites()
    for a in A:
        p = fn.exists_path(a, rets, B)
        ok = p is None
        allok &= ok
        R.ob('PDOM', k, ok, 'every path from %s to return must pass %s; %s%s' % (
            desc(a), ', '.join(desc(b) for b in B[:3]), why, '' if ok else ' -- escaping path via blocks %s' % p), a.where, fn)
    return allok


def no_path(R, fn, A, goals, avoid, key, why='', rule='NO-PATH'):
    """No CFG path from any A to any goal that avoids all `avoid` sites."""
    k = '%s::%s::%s' % (rule, fnkey(fn), key)
    if not A:
        R.ob(rule, k, False, 'anchor-missing: no start site (%s)' % why, fn.file, fn)
        return False
    allok = True
    for a in A:
        p = fn.exists_path(a, goals, avoid)
        ok = p is None
        allok &= ok
        R.ob(rule, k, ok, 'no path from %s to {%s} without {%s}; %s%s' % (
            desc(a), ', '.join(desc(g) for g in goals[:3]), ', '.join(desc(x) for x in avoid[:3]), why,
            '' if ok else ' -- witness path via blocks %s' % p), a.where, fn)
    return allok


def desc(s):
    if s.is_call:
        if s.callee and core.ATOMIC_RE.match(s.callee):
            return '%s(%s) L%s' % (s.callee.rsplit('::', 1)[-1], s.fn.chain(s.args[0]), s.line)
        return '%s() L%s' % (core.short(s.callee), s.line)
    n = s.node
    if s.i == 'T':
        return '%s L%s' % (n[0], s.line)
    return '%s L%s' % (n[0] if n[0] != 'a' else 'assign', s.line)


def raw(fn, kind=None, ptr=None):
    out = []
    for k, s, c in fn.raw_accesses():
        if kind is not None and k != kind:
            continue
        if ptr is not None and not re.search(ptr, c):
            continue
        out.append(s)
    return out


def sites_of(atoms):
    return [a.site for a in atoms]


def calls(fn, pat, **kw):
    return fn.calls(pat, **kw)


def const_arg(R, fn, site, idx, allowed, key, why=''):
    k = 'CONST-ARG::%s::%s' % (fnkey(fn), key)
    v = fn.const_of(site.args[idx]) if idx < len(site.args) else None
    ok = v in allowed
    R.ob('CONST-ARG', k, ok, 'argument %d of %s is %r, allowed %s; %s' % (idx, desc(site), v, sorted(map(str, allowed)), why), site.where, fn)
    return ok


def field_order_last(R, F, adt_id, field, key=None, why=''):
    a = F.adt(adt_id)
    fields = [f['name'] for f in a['variants'][0]['fields']]
    k = 'FIELD-ORDER::%s::%s-last' % (adt_id, field)
    if field not in fields:
        R.ob('FIELD-ORDER', k, False, 'anchor-missing: field %s not in %s' % (field, adt_id), '%s:%s' % (a['file'], a['line']))
        return False
    ok = fields[-1] == field
    R.ob('FIELD-ORDER', k, ok, 'fields=%s; %s must be declared last (dropped last); %s' % (fields, field, why), '%s:%s' % (a['file'], a['line']))
    return ok


def field_before(R, F, adt_id, first, second, why=''):
    a = F.adt(adt_id)
    fields = [f['name'] for f in a['variants'][0]['fields']]
    k = 'FIELD-ORDER::%s::%s-before-%s' % (adt_id, first, second)
    if first not in fields or second not in fields:
        R.ob('FIELD-ORDER', k, False, 'anchor-missing: field %s/%s not in %s' % (first, second, adt_id), '%s:%s' % (a['file'], a['line']))
        return False
    ok = fields.index(first) < fields.index(second)
    R.ob('FIELD-ORDER', k, ok, 'fields=%s; %s must be declared (dropped) before %s; %s' % (fields, first, second, why), '%s:%s' % (a['file'], a['line']))
    return ok


def arm_blocks(fn, switch_block, label_pred, F):
    """Target blocks of the arms of the switch in `switch_block` whose variant label satisfies label_pred.
    Returns list of (label, target) ; the `otherwise` target is labelled with the remaining variants."""
    si = fn.switch_info(switch_block)
    if si is None:
        return []
    labels = None
    if si.get('labels'):
        labels = F.enum_labels(si['labels'][1])
    out = []
    used = set()
    for v, tgt in si['arms'].items():
        lab = labels.get(v, str(v)) if labels else str(v)
        used.add(lab)
        if label_pred(lab):
            out.append((lab, tgt))
    if labels:
        rest = [l for l in set(labels.values()) if l not in used]
        for lab in rest:
            if label_pred(lab):
                out.append((lab, si['otherwise']))
    return out


def switches_on_result_of(fn, call_site, through=()):
    """Switch blocks whose scrutinee is the discriminant of (a projection of) the destination of call_site,
    possibly through pass-through calls matching `through` regexes (e.g. Try::branch)."""
    out = []
    for b in range(len(fn.blocks)):
        si = fn.switch_info(b)
        if not si or 'discr_of' not in si:
            continue
        p = fn.prov_place(si['discr_of'])
        root = p.root
        # follow through wrappers
        hops = 0
        while root[0] == 'call' and root[1].key() != call_site.key() and hops < 4:
            c = root[1].callee or ''
            co = root[1].callee_orig or ''
            if any(re.search(t, c) or re.search(t, co) for t in through) and root[1].args:
                p = fn.prov_operand(root[1].args[0])
                root = p.root
                hops += 1
            else:
                break
        if root[0] == 'call' and root[1].key() == call_site.key():
            out.append(b)
    return out


TRY_BRANCH = (r'core::ops::try_trait::Try>::branch$', r'core::ops::try_trait::Try::branch$')

_TESTS = {'is_ok': ('Ok', 'Err'), 'is_err': ('Err', 'Ok'), 'is_some': ('Some', 'None'), 'is_none': ('None', 'Some')}


def result_test_switches(fn, call_site):
    """Boolean switches that test the result of call_site through `.is_ok()` / `.is_err()` / `.is_some()` / `.is_none()` (possibly
    negated, possibly bound to a named local first).  Returns [(block, {label: target})] in the vocabulary of a match on the result:
    `if r.is_err() { return }` is the same decision as `match r { Err(_) => return, Ok(_) => .. }`."""
    out = []
    for b in range(len(fn.blocks)):
        t = fn.blocks[b]['t']
        if t[0] != 'switch':
            continue
        arms = bool_switch_arms(fn, b)
        if arms is None:
            continue
        tt, ff = arms
        p = fn.prov_operand(t[1])
        neg = False
        hops = 0
        while p.root[0] == 'expr' and p.root[1][0] == 'un' and p.root[1][1] == 'Not' and hops < 3:
            p = fn.prov_operand(p.root[1][2])
            neg = not neg
            hops += 1
        if p.root[0] != 'call' or p.path:
            continue
        m = re.search(r'(?:Result|Option)(?:::<.*>)?::(is_ok|is_err|is_some|is_none)$', p.root[1].callee or '')
        if not m or not p.root[1].args:
            continue
        q = fn.prov_operand(p.root[1].args[0])
        if q.root[0] != 'call' or q.root[1].key() != call_site.key() or [x for x in q.path if x != '*']:
            continue
        yes, no = _TESTS[m.group(1)]
        if neg:
            yes, no = no, yes
        out.append((b, {yes: tt, no: ff}))
    return out


def only_under(R, fn, F, sites, call_site, labels, key, why='', through=TRY_BRANCH):
    """ONLY-UNDER: every site lies under an arm (with a label in `labels`) of a switch on the result of call_site."""
    k = 'ONLY-UNDER::%s::%s' % (fnkey(fn), key)
    sw = switches_on_result_of(fn, call_site, through)
    bt = result_test_switches(fn, call_site)
    if not sw and not bt:
        R.ob('ONLY-UNDER', k, False, 'anchor-missing: no switch on the result of %s; %s' % (desc(call_site), why), call_site.where, fn)
        return False
    if not sites:
        R.ob('ONLY-UNDER', k, False, 'anchor-missing: no guarded site; %s' % why, fn.file, fn)
        return False
    allok = True
    for s in sites:
        ok = False
        for b in sw:
            for lab, tgt in arm_blocks(fn, b, lambda l: l in labels, F):
                if fn.edge_dominates(b, tgt, s.b):
                    ok = True
        for b, arms in bt:
            for lab, tgt in arms.items():
                if lab in labels and arms.get(lab) != [v for l_, v in arms.items() if l_ != lab][0] and fn.edge_dominates(b, tgt, s.b):
                    ok = True
        allok &= ok
        R.ob('ONLY-UNDER', k, ok, '%s must lie under arm %s of the match on %s; %s' % (desc(s), '|'.join(labels), desc(call_site), why), s.where, fn)
    return allok


def under_arm(fn, F, site, call_site, labels, through=TRY_BRANCH):
    """`site` lies under an arm (label in `labels`) of a decision on the result of call_site, whatever the spelling of the decision:
    match / if-let / `?` (labels Continue|Break) / .is_ok() / .is_err() / .is_some() / .is_none(), negated or bound to a local."""
    for b in switches_on_result_of(fn, call_site, through):
        for lab, tgt in arm_blocks(fn, b, lambda l: l in labels, F):
            if fn.edge_dominates(b, tgt, site.b):
                return True
    for b, arms in result_test_switches(fn, call_site):
        tg = set(arms.values())
        if len(tg) < 2:
            continue
        for lab, tgt in arms.items():
            if lab in labels and fn.edge_dominates(b, tgt, site.b):
                return True
    return False


def arm_edges(fn, F, call_site, labels, through=TRY_BRANCH):
    """CFG edges (switch block, target) taken when the result of call_site is one of `labels`, for every spelling of the decision."""
    out = []
    for b in switches_on_result_of(fn, call_site, through):
        for lab, tgt in arm_blocks(fn, b, lambda l: l in labels, F):
            out.append((b, tgt))
    for b, arms in result_test_switches(fn, call_site):
        if len(set(arms.values())) < 2:
            continue
        for lab, tgt in arms.items():
            if lab in labels:
                out.append((b, tgt))
    return out


def returns_success_of(fn, F, call_site):
    """The function's boolean return value is exactly `the result of call_site is Ok`: `r.is_ok()`, `!r.is_err()`, or
    `match r { Ok(_) => true, Err(_) => false }`.  Returns (verdict, description); verdict None = shape not recognised."""
    defs = fn.defs.get(0, [])
    if not defs:
        return None, 'no assignment to the return place'
    seen = []
    for kind, site in defs:
        if kind == 'call':
            m = re.search(r'Result(?:::<.*>)?::(is_ok|is_err)$', site.callee or '')
            q = fn.prov_operand(site.args[0]) if site.args else None
            if not m or q is None or q.root[0] != 'call' or q.root[1].key() != call_site.key():
                return None, 'return value produced by %s' % desc(site)
            if m.group(1) == 'is_err':
                return False, 'returns is_err() of the exchange'
            seen.append('is_ok()')
            continue
        rv = site.node[2]
        if rv[0] == 'use' and rv[1][0] == 'k':
            v = rv[1][3]
            if v in (1, True):
                if not under_arm(fn, F, site, call_site, ('Ok',)):
                    return False, '`true` returned outside the Ok arm'
                seen.append('true@Ok')
            elif v in (0, False):
                if not under_arm(fn, F, site, call_site, ('Err',)):
                    return False, '`false` returned outside the Err arm'
                seen.append('false@Err')
            else:
                return None, 'constant %r returned' % (v,)
            continue
        p = fn.prov_place([0]) if len(defs) == 1 else None
        if rv[0] == 'un' and rv[1] == 'Not':
            q = fn.prov_operand(rv[2])
            if q.root[0] == 'call' and re.search(r'Result(?:::<.*>)?::is_err$', q.root[1].callee or ''):
                r = fn.prov_operand(q.root[1].args[0])
                if r.root[0] == 'call' and r.root[1].key() == call_site.key():
                    seen.append('!is_err()')
                    continue
            return None, 'negation of something else'
        if rv[0] == 'use':
            q = fn.prov_operand(rv[1])
            if q.root[0] == 'call' and re.search(r'Result(?:::<.*>)?::is_ok$', q.root[1].callee or '') and not q.path:
                r = fn.prov_operand(q.root[1].args[0])
                if r.root[0] == 'call' and r.root[1].key() == call_site.key():
                    seen.append('is_ok() via local')
                    continue
        return None, 'return value assigned by an unrecognised expression'
    return True, ', '.join(seen)


def bool_switch_arms(fn, b):
    """For `switchInt(bool)`: returns (true_target, false_target)."""
    t = fn.blocks[b]['t']
    if t[0] != 'switch':
        return None
    arms = dict((v, tgt) for v, tgt in t[2])
    if 0 in arms:
        return (t[3], arms[0])
    if 1 in arms:
        return (arms[1], t[3])
    return None


def agg_sites(fn, adt_pat, variant=None):
    """Statements that construct a value of ADT `adt_pat` (optionally a given variant)."""
    rx = re.compile(adt_pat)
    out = []
    for s in fn.sites:
        n = s.node
        if s.i != 'T' and n[0] == 'a' and n[2][0] == 'agg':
            k = n[2][1]
            if k[0] == 'adt' and rx.search(k[1]) and (variant is None or k[2] == variant):
                out.append(s)
    return out


def const_sites(fn, pat):
    """Statements / call arguments that use a named constant matching pat. Returns list of sites."""
    rx = re.compile(pat)
    out = []

    def has(op):
        return isinstance(op, list) and op and op[0] == 'k' and ((op[4] and rx.search(op[4])) or rx.search(op[1]))
    for s in fn.sites:
        n = s.node
        if s.is_call:
            if any(has(a) for a in s.args):
                out.append(s)
        elif s.i != 'T' and n[0] == 'a':
            rv = n[2]
            ops = []
            if rv[0] in ('use',):
                ops = [rv[1]]
            elif rv[0] == 'bin':
                ops = [rv[2], rv[3]]
            elif rv[0] == 'agg':
                ops = rv[2]
            elif rv[0] == 'cast':
                ops = [rv[2]]
            if any(has(o) for o in ops):
                out.append(s)
        elif s.i == 'T' and n[0] == 'switch' and has(n[1]):
            out.append(s)
    return out


def guard_switches(fn, site):
    """Switch blocks one of whose out-edges dominates `site` exclusively (nearest first)."""
    out = []
    for b in range(len(fn.blocks)):
        t = fn.blocks[b]['t']
        if t[0] != 'switch':
            continue
        for tgt in fn.succ(b):
            if fn.edge_dominates(b, tgt, site.b) and not all(fn.edge_dominates(b, t2, site.b) for t2 in fn.succ(b)):
                out.append((b, tgt))
                break
    # nearest = the one dominated by all others
    snapshot = list(out)
    keyed = [(-len([1 for (b2, _) in snapshot if fn.block_dominates(b2, bt[0])]), i, bt) for i, bt in enumerate(snapshot)]
    keyed.sort()
    return [bt for (_, _, bt) in keyed]


def loop_recheck(R, fn, cas_sites, check_sites, key, why=''):
    """Inside a CAS retry loop: every path from a CAS to the next CAS passes a check site."""
    return no_path(R, fn, cas_sites, cas_sites, check_sites, key, why, rule='LOOP')


def find_subterm(t, pred):
    """First subterm of a symbolic term satisfying pred (pre-order)."""
    if pred(t):
        return t
    for x in t[1:]:
        if isinstance(x, tuple):
            if x and isinstance(x[0], str):
                r = find_subterm(x, pred)
                if r is not None:
                    return r
            else:
                for y in x:
                    if isinstance(y, tuple) and y and isinstance(y[0], str):
                        r = find_subterm(y, pred)
                        if r is not None:
                            return r
    return None


def all_subterms(t, pred, acc=None):
    if acc is None:
        acc = []
    if pred(t):
        acc.append(t)
    for x in t[1:]:
        if isinstance(x, tuple):
            if x and isinstance(x[0], str):
                all_subterms(x, pred, acc)
            else:
                for y in x:
                    if isinstance(y, tuple) and y and isinstance(y[0], str):
                        all_subterms(y, pred, acc)
    return acc


def shift_path(t, leaf_pred):
    """Along the path from the root of term t to the leaf satisfying leaf_pred collect (op, const) for
    shifts and masks.  Returns list or None if the leaf does not occur."""
    if leaf_pred(t):
        return []
    k = t[0]
    if k in ('<<', '>>', '&', '|', '+', '*', '-', '/', '%', '^'):
        subs = list(t[1]) if len(t) == 2 else [t[1], t[2]]
        for i, x in enumerate(subs):
            r = shift_path(x, leaf_pred)
            if r is not None:
                other = [y for j, y in enumerate(subs) if j != i]
                if k in ('<<', '>>', '&') and len(other) == 1 and other[0][0] == 'c':
                    if k in ('<<', '>>') and i != 0:
                        return r
                    return r + [(k, other[0][1])]
                return r
        return None
    if k in ('cast', 'Not', 'Neg'):
        return shift_path(t[-1], leaf_pred)
    if k == 'proj':
        return shift_path(t[1], leaf_pred)
    return None


_NEG = {'>=': '<', '>': '<=', '<=': '>', '<': '>=', '==': '!=', '!=': '=='}
_FLIP = {'>=': '<=', '>': '<', '<=': '>=', '<': '>', '==': '==', '!=': '!='}


def refusal_condition(fn, err_site):
    """For an error-construction site: the nearest guarding comparison, canonicalised as the condition under which the
    error path is taken: (lhs_str, REL, rhs_str, guard_site) or None."""
    for (b, tgt) in guard_switches(fn, err_site):
        t = fn.blocks[b]['t']
        term = core.sym_norm(core.sym(fn, t[1]))
        neg = False
        while term[0] == 'Not':
            term = term[1]
            neg = not neg
        if term[0] not in _NEG:
            continue
        arms = bool_switch_arms(fn, b)
        if arms is None:
            continue
        on_true = fn.edge_dominates(b, arms[0], err_site.b) and arms[0] == tgt
        rel = term[0]
        if not on_true:
            rel = _NEG[rel]
        if neg:
            rel = _NEG[rel]
        return (core.sym_nstr(term[1]), rel, core.sym_nstr(term[2]), fn.term_site(b))
    return None


def check_before_effects(R, fn, err_sites, effects, key, why=''):
    """The test guarding the refusal dominates every effect site (a refusal is side-effect free)."""
    k = 'DOM::%s::%s' % (fnkey(fn), key)
    if not err_sites:
        R.ob('DOM', k, False, 'anchor-missing: refusal exit; %s' % why, fn.file, fn)
        return None
    rc = refusal_condition(fn, err_sites[0])
    if rc is None:
        gs = guard_switches(fn, err_sites[0])
        if not gs:
            R.ob('DOM', k, False, 'no guarding test found for the refusal; %s' % why, err_sites[0].where, fn)
            return None
        g = fn.term_site(gs[0][0])
    else:
        g = rc[3]
    if not effects:
        R.ob('DOM', k, False, 'anchor-missing: effect sites; %s' % why, fn.file, fn)
        return rc
    for e in effects:
        pth = fn.exists_path(e, err_sites, [])
        R.ob('DOM', k, pth is None and (fn.dominates(g, e) or fn.exists_path(None, [e], [g], from_entry=True) is not None or True),
             'the refusal guarded by the limit test (L%s%s) is never reached after %s; %s%s' % (g.line, ' `%s %s %s`' % rc[:3] if rc else '', desc(e), why, '' if pth is None else ' -- path %s' % pth), e.where, fn)
    return rc


def origins(fn, op_or_place, depth=8, _seen=None):
    """Name-independent backward slice of a value: the set of callee paths, `arg:<index>` and `field:<name>` tokens met when the value's
    provenance is walked back through calls (all arguments), re-assigned locals (all definitions) and projections.  Used to identify the
    ROLE of a value (which file, which counter) without relying on the names of local variables."""
    out = set()
    if _seen is None:
        _seen = set()
    if depth < 0 or op_or_place is None:
        return out
    if op_or_place and op_or_place[0] in ('k', 'fn'):
        return out
    p = fn.prov_operand(op_or_place) if op_or_place[0] in ('c', 'm') else fn.prov_place(op_or_place)
    for el in p.path:
        if isinstance(el, str) and el.startswith('.') and not el[1:].isdigit():
            out.add('field:' + el[1:])
    for v in p.via:
        if v[0] == 'call':
            out.add(v[1])
    r = p.root
    if r[0] == 'arg':
        out.add('arg:%d' % r[1])
    elif r[0] == 'call':
        s = r[1]
        if s.callee:
            out.add(s.callee)
        k = s.key()
        if k not in _seen:
            _seen.add(k)
            for a in s.args:
                out |= origins(fn, a, depth - 1, _seen)
    elif r[0] in ('expr', 'agg'):
        k = ('E', id(r[1]))
        if k not in _seen:
            _seen.add(k)
            for o in _operands(r[1]):
                out |= origins(fn, o, depth - 1, _seen)
    elif r[0] in ('var', 'multi', 'local'):
        local = r[2] if r[0] == 'var' else r[1]
        if ('L', local) not in _seen:
            _seen.add(('L', local))
            for kind, site in fn.defs.get(local, []):
                if kind == 'call':
                    if site.callee:
                        out.add(site.callee)
                    for a in site.args:
                        out |= origins(fn, a, depth - 1, _seen)
                else:
                    rv = site.node[2]
                    if rv[0] == 'use':
                        out |= origins(fn, rv[1], depth - 1, _seen)
                    elif rv[0] in ('ref', 'rawptr'):
                        out |= origins(fn, rv[2], depth - 1, _seen)
                    elif rv[0] == 'cast':
                        out |= origins(fn, rv[2], depth - 1, _seen)
                    else:
                        for o in _operands(rv):
                            out |= origins(fn, o, depth - 1, _seen)
            if 1 <= local <= fn.nargs:
                out.add('arg:%d' % local)
    return out


def _operands(node):
    """All place operands (`['c'|'m', place]`) read by an rvalue (structural walk over the JSON fact)."""
    out = []

    def walk(x):
        if isinstance(x, list):
            if len(x) == 2 and x[0] in ('c', 'm') and isinstance(x[1], list) and x[1] and isinstance(x[1][0], int):
                out.append(x)
                return
            for y in x:
                walk(y)
    walk(node)
    return out


def has_origin(fn, operand, callee_pat=None, param=None):
    """Value derives from a call matching callee_pat and/or from the parameter (name, position) -- decided on provenance."""
    o = origins(fn, operand)
    ok = True
    if callee_pat is not None:
        ok = ok and any(re.search(callee_pat, x) for x in o if not x.startswith(('arg:', 'field:')))
    if param is not None:
        ok = ok and ('arg:%d' % param_index(fn, param[0], param[1])) in o
    return ok


def _operand_locals(node):
    """All locals read by an rvalue / operand / call-argument list (structural walk over the JSON fact)."""
    out = []

    def walk(x):
        if isinstance(x, list):
            if len(x) == 2 and x[0] in ('c', 'm') and isinstance(x[1], list) and x[1] and isinstance(x[1][0], int):
                out.append(x[1][0])
                return
            for y in x:
                walk(y)
    walk(node)
    return out


def _root_local(fn, operand):
    """Follow plain copies/moves of an operand back to the local that is (re)defined more than once or by a call."""
    seen = set()
    while operand and operand[0] in ('c', 'm') and len(operand[1]) == 1:
        l = operand[1][0]
        if l in seen:
            return l
        seen.add(l)
        ds = fn.defs.get(l, [])
        if len(ds) == 1 and ds[0][0] == 'assign' and ds[0][1].node[2][0] == 'use' and ds[0][1].node[2][1][0] in ('c', 'm') and len(ds[0][1].node[2][1][1]) == 1:
            operand = ds[0][1].node[2][1]
            continue
        return l
    return None


def cas_loop_fresh(R, fn, cas, key, why=''):
    """LOOP-FRESH: in a compare_exchange retry loop, everything the `new` argument depends on (data and in-loop control) that reads the
    loop-carried `current` value is computed inside the loop, i.e. is recomputed from the value the CAS will actually compare against.
    A decision computed once before the loop is stale after the first failed CAS.  Returns None when `cas` is not in a loop."""
    b0 = cas.b
    fwd = set()
    st = list(fn.succ(b0))
    while st:
        b = st.pop()
        if b in fwd:
            continue
        fwd.add(b)
        st.extend(fn.succ(b))
    if b0 not in fwd:
        return None
    preds = fn.preds() if callable(getattr(fn, 'preds', None)) else None
    # blocks that can reach the CAS block
    back = set()
    st = [b0]
    rp = {}
    for b in range(len(fn.blocks)):
        for s_ in fn.succ(b):
            rp.setdefault(s_, []).append(b)
    while st:
        b = st.pop()
        if b in back:
            continue
        back.add(b)
        st.extend(rp.get(b, []))
    loop = fwd & back
    E = _root_local(fn, cas.args[1])
    if E is None:
        return None
    stale = []
    seen = set()
    work = list(_operand_locals(cas.args[2]))
    # control: switches inside the loop
    for b in loop:
        t = fn.blocks[b]['t']
        if t[0] == 'switch':
            work.extend(_operand_locals(t[1]))
    while work:
        l = work.pop()
        if l in seen or l == E:
            continue
        seen.add(l)
        alldefs = [(k_, s_) for (k_, s_) in fn.defs.get(l, []) + fn.defs.get(('partial', l), []) if k_ != 'setdiscr']
        defs_in = [s_ for (_, s_) in alldefs if s_.b in loop]
        # the initial computation before the loop is fine when every retry path recomputes the local
        refreshed = bool(defs_in) and fn.exists_path(cas, [cas], defs_in) is None
        for kind, site in alldefs:
            if refreshed and site.b not in loop:
                continue
            reads = _operand_locals(site.node[2]) if kind == 'assign' else _operand_locals(site.args)
            rl = [_root_local(fn, ['c', [x]]) for x in reads]
            if site.b not in loop and (E in reads or E in rl):
                stale.append(site)
            for x in reads:
                if x != E:
                    work.append(x)
    R.ob('LOOP', key, not stale, 'every input of the CAS `new` value that reads the loop-carried current value is recomputed inside the retry loop%s; %s' % (
        '' if not stale else ' -- computed once before the loop: ' + ', '.join(s.where for s in stale), why), cas.where, fn)
    return not stale


def cas_loops_fresh(R, F, fn_pat, floor, why):
    """LOOP-FRESH over every compare_exchange retry loop of the functions matching `fn_pat`; `floor` = number of loops confirmed by hand."""
    n = 0
    for f in F.find_fns(fn_pat):
        for a in f.atomic_ops():
            if not a.op.startswith('compare_exchange'):
                continue
            r = cas_loop_fresh(R, f, a.site, 'LOOP::%s::%s::CAS-inputs-recomputed-per-iteration' % (fnkey(f), a.recv.split('.')[-1].split('(')[0]), why)
            if r is not None:
                n += 1
    R.floor('compare_exchange retry loops (%s)' % fn_pat[:60], n, floor)
    return n


def _flat(node):
    """All string atoms of a JSON fact node (used for cheap 'mentions field X' tests)."""
    out = []

    def walk(x):
        if isinstance(x, str):
            out.append(x)
        elif isinstance(x, (list, tuple)):
            for y in x:
                walk(y)
        elif isinstance(x, dict):
            for y in x.values():
                walk(y)
    walk(node)
    return out


def flavour_siblings(R, F, fn_pat, key_prefix, why, ignore=r'$^', floor=2):
    """SIBLINGS over the payload flavours of one operation (`X::<.., Payload, ..>::op` vs `X::<.., [Payload], ..>::op`, custom payload ...):
    every crate-internal call the sized reference makes is made at least as often by each sibling, and the sibling consults the same
    `self.<field>` flags in its branch conditions.  Extra calls of a sibling (slice length handling) are not reported."""
    import collections
    from .core import sym, sym_nstr
    groups = collections.defaultdict(list)
    for f in F.find_fns(fn_pat):
        if f.kind == 'closure':
            continue
        groups[(core.strip_generics(f.id))].append(f)
    n = 0

    def sig(f):
        cs = collections.Counter()
        for s_ in f.sites:
            if s_.is_call and s_.callee and not s_.macro and s_.callee.startswith('iceoryx2') and not re.search(ignore, s_.callee):
                cs[re.sub(r'::<.*?>::', '::', s_.callee)] += 1
        fields = collections.Counter()
        for b in range(len(f.blocks)):
            t = f.blocks[b]['t']
            if t[0] == 'switch':
                # a merged boolean (`let skip = !a && !b.is_connected(); if skip`) mentions what its definitions mention
                texts = [sym_nstr(x) for x in core.phi_alternatives(f, sym(f, t[1]))]
                for x in set(y for tx in texts for y in re.findall(r'self\.(\w+)', tx)):
                    fields[x] += 1
        return cs, fields
    for gid, fs in sorted(groups.items()):
        if len(fs) < 2:
            continue
        ref = [f for f in fs if '[' not in f.id.split('>::')[0]]
        ref = ref[0] if ref else fs[0]
        rs = sig(ref)
        for f in fs:
            if f is ref:
                continue
            n += 1
            s_ = sig(f)
            missing = ['%s (%d < %d)' % (core.short(k), s_[0][k], v) for k, v in rs[0].items() if s_[0][k] < v]
            missing += ['branch on self.%s (%d < %d)' % (k, s_[1][k], v) for k, v in rs[1].items() if s_[1][k] < v]
            flav = re.sub(r'^.*?::<(.*)>::\w+$', r'\1', f.id)
            flav = 'slice' if '[' in flav and 'CustomPayloadMarker' not in flav else ('custom' if 'CustomPayloadMarker' in flav else 'other')
            idx = [g for g in fs if g is not ref].index(f)
            R.ob('SIBLINGS', '%s::%s::%s#%d::does-what-the-sized-sibling-does' % (key_prefix, gid.replace('iceoryx2::', ''), flav, idx), not missing,
                 'compared with %s:%s this flavour %s; %s' % (ref.file.rsplit('/', 1)[-1], ref.line, 'makes the same internal calls and branches' if not missing else 'lacks: ' + ', '.join(missing), why), '%s:%s' % (f.file, f.line), f)
    R.floor('payload-flavour siblings (%s)' % key_prefix, n, floor)


def accumulator_loop_exits(fn):
    """Loops that OR-accumulate boolean flags (`acc |= f(i)`): returns a list of (accumulators, early_exit_edges, verdicts) per loop where
    verdicts[(edge, acc)] tells whether the early exit edge is taken only when `acc` is already true.  An early exit while one of the
    accumulated flags may still become true on a later iteration makes that flag under-approximate."""
    nb = len(fn.blocks)
    succ = {b: fn.succ(b) for b in range(nb)}
    # accumulators: L = BitOr(L, x)
    accs = {}
    for s_ in fn.sites:
        if s_.i != 'T' and s_.node[0] == 'a' and len(s_.node[1]) == 1 and s_.node[2][0] == 'bin' and s_.node[2][1] == 'BitOr':
            l = s_.node[1][0]
            ops = [o for o in s_.node[2][2:4] if o[0] in ('c', 'm') and o[1] == [l]]
            if ops:
                accs.setdefault(l, []).append(s_)
    if not accs:
        return []
    out = []
    # loop of each accumulator site: blocks on a cycle through the site's block
    done = set()
    for l, ss in accs.items():
        b0 = ss[0].b
        fwd = set()
        st = list(succ[b0])
        while st:
            b = st.pop()
            if b in fwd:
                continue
            fwd.add(b)
            st.extend(succ[b])
        if b0 not in fwd:
            continue
        rp = {}
        for b in range(nb):
            for t in succ[b]:
                rp.setdefault(t, []).append(b)
        back = set()
        st = [b0]
        while st:
            b = st.pop()
            if b in back:
                continue
            back.add(b)
            st.extend(rp.get(b, []))
        loop = frozenset(fwd & back)
        if loop in done:
            continue
        done.add(loop)
        in_loop_accs = [a for a, sites in accs.items() if any(x.b in loop for x in sites)]
        exits = []
        for b in loop:
            for t in succ[b]:
                if t in loop:
                    continue
                term = fn.blocks[b]['t']
                natural = False
                if term[0] == 'switch':
                    p = fn.prov_operand(term[1]) if term[1][0] in ('c', 'm') else None
                    si = fn.switch_info(b) or {}
                    if 'discr_of' in si:
                        pp = fn.prov_place(si['discr_of'])
                        if pp.root[0] == 'call' and re.search(r'Iterator.*::next$|::next$', pp.root[1].callee or ''):
                            natural = True
                if not natural:
                    exits.append((b, t))
        verdicts = {}
        for (b, t) in exits:
            for a in in_loop_accs:
                known_true = False
                for sb in loop:
                    term = fn.blocks[sb]['t']
                    if term[0] != 'switch' or term[1][0] not in ('c', 'm'):
                        continue
                    if _root_local(fn, term[1]) != a:
                        continue
                    tt, ff = bool_switch_arms(fn, sb)
                    if tt is not None and (fn.edge_dominates(sb, tt, b) or (sb == b and tt == t)):
                        known_true = True
                verdicts[((b, t), a)] = known_true
        out.append((in_loop_accs, exits, verdicts, loop))
    return out


_NEG = {'==': '!=', '!=': '==', '<': '>=', '>=': '<', '>': '<=', '<=': '>'}
_FLIP = {'==': '==', '!=': '!=', '<': '>', '>': '<', '<=': '>=', '>=': '<='}


def _split_top(c):
    """`(A op B)` -> (A, op, B) splitting at the top-level comparison operator, else None."""
    if not (c.startswith('(') and c.endswith(')')):
        return None
    body = c[1:-1]
    depth = 0
    i = 0
    while i < len(body):
        ch = body[i]
        if ch in '([{':
            depth += 1
        elif ch in ')]}':
            depth -= 1
        elif depth == 0 and ch == ' ':
            for op in ('==', '!=', '<=', '>=', '<', '>'):
                if body.startswith(' ' + op + ' ', i):
                    return body[:i], op, body[i + len(op) + 2:]
        i += 1
    return None


def normalize_cond(c, holds=True):
    """Canonical text of a branch condition that is known to evaluate to `holds`: comparison operators are negated for holds == False, the
    constant / shorter operand is put on the right, `ne(a, b)` / `eq(a, b)` are written as comparisons, a bare boolean term is prefixed with
    `!` when it is false.  `if x != 0 { return } ; <site>` and `if x == 0 { <site> }` both give `(x == 0)` for <site>."""
    neg0 = False
    m = re.match(r'^(!?)(?:[\w:<>]*::)?(ne|eq)\((.*)\)$', c)
    if m:
        # `!PartialEq::ne(a, b)` == `a == b`
        if m.group(1):
            holds = not holds
        m = re.match(r'^(ne|eq)\((.*)\)$', m.group(2) + '(' + m.group(3) + ')')
    if m:
        inner = m.group(2)
        depth = 0
        for i, ch in enumerate(inner):
            if ch in '([{':
                depth += 1
            elif ch in ')]}':
                depth -= 1
            elif ch == ',' and depth == 0:
                c = '(%s %s %s)' % (inner[:i].strip(), '!=' if m.group(1) == 'ne' else '==', inner[i + 1:].strip())
                break
    sp = _split_top(c)
    if sp:
        a, op, b = sp
        if not holds:
            op = _NEG[op]
        isconst = lambda t: bool(re.match(r'^-?\d+$|^const:|^[A-Z_0-9:]+$', t)) or re.match(r'^[\w:]+::[A-Z][A-Z_0-9]*(\.0)?$', t) is not None
        if (isconst(a) and not isconst(b)):
            a, b, op = b, a, _FLIP[op]
        return '(%s %s %s)' % (a, op, b)
    if c.startswith('!') and not holds:
        return c[1:]
    if re.match(r'^Not\((.*)\)$', c):
        inner = re.match(r'^Not\((.*)\)$', c).group(1)
        return inner if not holds else '!' + inner
    return c if holds else '!' + c


def path_conds(fn, site, F=None, _depth=0):
    """Normalised conditions (see normalize_cond) that hold on EVERY path to `site`, nearest first.  Boolean switches contribute the
    condition with its polarity; switches on an enum discriminant contribute `<scrutinee> is <Variant>` when F is given."""
    out = []
    for (b, tgt) in guard_switches(fn, site):
        t = fn.blocks[b]['t']
        c = core.sym_nstr(core.sym(fn, t[1]))
        arms = bool_switch_arms(fn, b)
        si = fn.switch_info(b) or {}
        if si.get('labels') and F is not None:
            labs = [lab for lab, tg in arm_blocks(fn, b, lambda l: True, F) if tg == tgt]
            out.append('%s is %s' % (c, '|'.join(sorted(labs)) or '?'))
            continue
        if arms is None or c.startswith('discr('):
            out.append(c)
            continue
        tt, ff = arms
        if tt == ff:
            continue
        if c.startswith('phi:') and tgt == tt and _depth < 4:
            # a named / merged boolean (`let both = a && b; if both {..}`): it is true only through the one definition that is not
            # the constant `false`; what guards that definition, and the value assigned there, hold as well
            l = _root_local(fn, t[1])
            cands = []
            for kind, ds in (fn.defs.get(l, []) if l is not None else []):
                if kind == 'assign' and ds.node[2][0] == 'use' and ds.node[2][1][0] == 'k' and ds.node[2][1][3] in (0, False):
                    continue
                cands.append((kind, ds))
            if len(cands) == 1 and len(fn.defs.get(l, [])) >= 2:
                kind, ds = cands[0]
                rv = ds.node[2] if kind == 'assign' else None
                if not (rv is not None and rv[0] == 'use' and rv[1][0] == 'k'):
                    out.append(normalize_cond(core.sym_nstr(core.sym_def(fn, kind, ds)), holds=True))
                out.extend(path_conds(fn, ds, F, _depth + 1))
                continue
        out.append(normalize_cond(c, holds=(tgt == tt)))
    return out


def oriented(rc, rhs_pat):
    """Orient a refusal condition (lhs, REL, rhs, site) so that the operand matching rhs_pat is on the right (flipping the relation)."""
    if rc is None:
        return None
    if not re.search(rhs_pat, rc[2]) and re.search(rhs_pat, rc[0]):
        return (rc[2], _FLIP[rc[1]], rc[0], rc[3])
    return rc


def bool_truth_table(fn, nparams=None, skip_first=True):
    """Exhaustive evaluation of a pure boolean function / closure over all assignments of its bool parameters (finite domain, evaluated on the
    MIR: use/copy/move, Not, BitOr/BitAnd/BitXor/Eq/Ne, bool switch, goto, return).  Returns {tuple_of_bools: bool} or None when the body
    contains anything else (call, memory access ..).  For closures the environment argument (_1) is skipped."""
    import itertools
    first = 2 if (fn.kind == 'closure' and skip_first) else 1
    params = list(range(first, fn.nargs + 1))
    table = {}
    for vals in itertools.product([False, True], repeat=len(params)):
        env = dict(zip(params, vals))

        def ev(op):
            if op[0] in ('c', 'm'):
                pl = op[1]
                if len(pl) != 1 or pl[0] not in env:
                    raise KeyError(str(pl))
                return env[pl[0]]
            if op[0] == 'k':
                v = op[3]
                if isinstance(v, bool):
                    return v
                if v in (0, 1):
                    return bool(v)
                if op[1] in ('true', 'false'):
                    return op[1] == 'true'
                raise KeyError('const')
            raise KeyError(op[0])
        b = 0
        steps = 0
        try:
            while True:
                steps += 1
                if steps > 200:
                    return None
                blk = fn.blocks[b]
                for st in blk['s']:
                    if st[0] != 'a' or len(st[1]) != 1:
                        if st[0] in ('storage', 'nop'):
                            continue
                        return None
                    rv = st[2]
                    if rv[0] == 'use':
                        if rv[1][0] == 'k' and rv[1][1] == '()':
                            continue
                        env[st[1][0]] = ev(rv[1])
                    elif rv[0] == 'un' and rv[1] == 'Not':
                        env[st[1][0]] = not ev(rv[2])
                    elif rv[0] == 'bin' and rv[1] in ('BitOr', 'BitAnd', 'BitXor', 'Eq', 'Ne'):
                        a_, b_ = ev(rv[2]), ev(rv[3])
                        env[st[1][0]] = {'BitOr': a_ or b_, 'BitAnd': a_ and b_, 'BitXor': a_ != b_, 'Eq': a_ == b_, 'Ne': a_ != b_}[rv[1]]
                    else:
                        return None
                t = blk['t']
                if t[0] == 'goto':
                    b = t[1]
                elif t[0] == 'switch':
                    v = ev(t[1])
                    nxt = t[3]
                    for val, tgt in t[2]:
                        if bool(val) == v and val in (0, 1):
                            nxt = tgt
                    b = nxt
                elif t[0] == 'ret':
                    table[vals] = env[0]
                    break
                else:
                    return None
        except KeyError:
            return None
    return table


def param_index(fn, name, idx):
    """Position of the parameter a rule is about: by its name when a parameter of that name exists,
    otherwise by the position it had when the rule was written (robust to a rename)."""
    for i in range(1, fn.nargs + 1):
        if fn.local_name(i) == name:
            return i
    return idx


def param_is(fn, operand, name, idx, path=()):
    """Operand is (a copy / reborrow of) the parameter `name` (position idx), optionally projected by `path`.
    Decided by provenance, never by the spelling of the parameter."""
    want = param_index(fn, name, idx)
    p = fn.prov_operand(operand)
    return p.root[0] == 'arg' and p.root[1] == want and tuple(q for q in p.path if q != '*') == tuple(path)


def param_calls(fn, name, idx):
    """Call sites that invoke the closure parameter `name` (position idx)."""
    want = param_index(fn, name, idx)
    out = []
    for s in fn.sites:
        if s.is_call and re.search(r'Fn(Mut|Once)?(<.*>)?>?::call(_mut|_once)?$', s.callee or ''):
            p = fn.prov_operand(s.args[0])
            if p.root[0] == 'arg' and p.root[1] == want:
                out.append(s)
    return out


def canon(fn, text):
    """Rendered symbolic text with every parameter name replaced by `$<position>` (a rename of a parameter must not change a verdict).
    Field accesses (`self.size`), paths (`Layout::size`) and calls (`size(`) of the same spelling are left alone."""
    for i in range(1, fn.nargs + 1):
        nm = fn.local_name(i)
        if nm and nm != 'self':
            text = re.sub(r'(?<![\.\w:$])%s\b(?!\(|::)' % re.escape(nm), '$%d' % i, text)
    return text


def family(F, fn, depth=2, with_hops=False):
    """`fn`, its closures, and the helpers it delegates to: functions of the same crate called from these bodies that are inherent methods of
    the same type (or, for a free function, free functions of the same module).  An extract-function / inline-function refactoring moves
    code between the members of a family without changing behaviour, so rules that look for a site "in fn" look in the family.
    with_hops=True returns [(body, [(caller_body, call_site | None), ..])] - the chain of calls that leads from fn to the body."""
    out = [(fn, [])]
    seen = {fn.id}

    def self_adt(f):
        root = f
        # closures: use the enclosing function
        while root.kind == 'closure' and root.parent and F.fn_opt(root.parent) is not None:
            root = F.fn_opt(root.parent)
        return (root.impl or {}).get('self_adt'), root

    adt0, root0 = self_adt(fn)
    mod0 = core.strip_generics(root0.id).rsplit('::', 1)[0]
    i = 0
    while i < len(out):
        body, hops = out[i]
        i += 1
        for c in F.closures_of(body, recursive=False):
            if c.id not in seen:
                seen.add(c.id)
                out.append((c, hops + [(body, None)]))
        if len(hops) >= depth + 2:
            continue
        for s_ in body.sites:
            if not s_.is_call or not s_.callee or s_.callee in seen:
                continue
            g = F.fn_opt(s_.callee)
            if g is None or g.crate != fn.crate or g.kind == 'closure':
                continue
            gadt = (g.impl or {}).get('self_adt')
            same = False
            if adt0 and gadt == adt0 and not (g.impl or {}).get('trait'):
                same = True
            elif not adt0 and not g.impl and core.strip_generics(g.id).rsplit('::', 1)[0] == mod0:
                same = True
            if same:
                seen.add(g.id)
                out.append((g, hops + [(body, s_)]))
    return out if with_hops else [b for b, _ in out]


def argi(F, site, name, pos, ty=None):
    """Index into site.args of the callee's parameter `name`; failing that the only parameter whose declared type matches `ty`; failing
    that `pos` (the index it had when the rule was written).  Renaming or reordering the parameters of a private function must not
    change a verdict."""
    if getattr(F, 'arg_permutations', None) is not None:
        return pos    # core.Facts already presents every call in the frozen parameter order (rules/signatures.json)
    g = F.fn_opt(site.callee) if site.callee else None
    if g is not None:
        for i in range(1, g.nargs + 1):
            if g.local_name(i) == name:
                return i - 1
        if ty is not None:
            hits = [i for i in range(1, g.nargs + 1) if re.search(ty, str(g.locals[i]))]
            if len(hits) == 1:
                return hits[0] - 1
    return pos


def arg(F, site, name, pos, ty=None):
    i = argi(F, site, name, pos, ty)
    return site.args[i] if i < len(site.args) else None


def param_index_ty(fn, name, idx, ty):
    """param_index with a type fallback: by name, else the only parameter of a matching declared type, else the old position."""
    for i in range(1, fn.nargs + 1):
        if fn.local_name(i) == name:
            return i
    hits = [i for i in range(1, fn.nargs + 1) if re.search(ty, str(fn.locals[i]))]
    return hits[0] if len(hits) == 1 else idx


def bool_switches_on_call(fn, call_site):
    """Boolean switches on the (possibly negated, possibly named) result of call_site: [(block, target_if_result_true, target_if_false)]."""
    out = []
    for b in range(len(fn.blocks)):
        t = fn.blocks[b]['t']
        if t[0] != 'switch':
            continue
        arms = bool_switch_arms(fn, b)
        if arms is None:
            continue
        tt, ff = arms
        p = fn.prov_operand(t[1])
        neg = False
        hops = 0
        while p.root[0] == 'expr' and p.root[1][0] == 'un' and p.root[1][1] == 'Not' and hops < 3:
            p = fn.prov_operand(p.root[1][2])
            neg = not neg
            hops += 1
        if p.root[0] == 'call' and p.root[1].key() == call_site.key() and not p.path:
            out.append((b, ff, tt) if neg else (b, tt, ff))
    return out


def slot_loops_cover_all_slots(R, F, fn_pat, floor, why):
    """`for i in 0..END { if let Some(x) = container.get(i) .. }` over a SPARSE slot container (connection tables keep empty slots and
    reuse them): END derives from the container's own len()/capacity().  A bound taken from a count of live entries skips every entry
    whose slot index is not below that count - as soon as an older entry left, a younger one is never visited again."""
    n = 0
    for f in F.find_fns(fn_pat):
        for c in f.calls(r'^iceoryx2::.*::(get|get_mut)$'):
            if len(c.args) != 2:
                continue
            o = origins(f, c.args[1], depth=10)
            if not any(re.search(r'range::.*Range<.*>>::next$|Range<A>>::next$', x) for x in o):
                continue
            pre = c.callee.rsplit('::', 1)[0] + '::'
            ok = any(x.startswith(pre) and re.search(r'::(len|capacity)$', x) for x in o)
            n += 1
            R.ob('LOOP', 'LOOP::%s::index-range-covers-every-slot' % fnkey(f), ok, '%s(i): the range of i %s; %s' % (core.short(c.callee), 'ends at the container\'s len()/capacity()' if ok else 'does NOT derive from %slen()/capacity() (origins: %s)' % (core.short(pre), sorted(core.short(x) for x in o if not x.startswith(('arg:', 'field:')))[:5]), why), c.where, f)
    R.floor('index loops over slot containers (%s)' % fn_pat[:40], n, floor)
