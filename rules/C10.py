"""C10 - port registry snapshots (mpmc::Container): writer marks the slot empty before overwriting, publishes with a release
increment, bumps the change counter last; reader acquires, copies, re-validates with a CAS and retries; sibling registries use
the container uniformly."""
import re
from . import core, lib
from .core import sym, sym_nstr, sym_norm
from .lib import ord_floor, dom, pdom, no_path, atomics, raw, sites_of, fnkey, const_arg

EXPLANATION = (
    "Static rules over MIR of mpmc/container.rs: ORD floors of the seqlock-like element generation counter and of the change "
    "counter; DOM chains (acquire index < [mark empty] < copy < release-increment < change counter; reader: change-counter "
    "load first, element load < copy < re-validating CAS); LOOP (a failed validation re-copies before it can finish); "
    "ONLY-UNDER (copy only for odd counters, mark-empty only for odd counters); SIBLINGS over the dynamic configs "
    "(add_*_id registers under the node's owner id, release_*_handle removes from the same container). "
    "Necessary conditions of tear-free, ghost-free snapshots; snapshot semantics over interleavings are not decided.")
NOT_DECIDED = "snapshot linearizability over all interleavings of writers and a refreshing reader"

C = 'iceoryx2_bb_lock_free::mpmc::container::Container::<T>::'
ELEM = r'^self\.element_generation_counter_ptr$'
CHG = r'^self\.change_counter$'


def under_contains_data(R, fn, sites, key, why):
    cds = fn.calls(r'Container::<T>::contains_data$')
    k = 'ONLY-UNDER::%s::%s' % (fnkey(fn), key)
    if not cds or not sites:
        R.ob('ONLY-UNDER', k, False, 'anchor-missing: contains_data call or guarded site', fn.file, fn)
        return
    for s in sites:
        ok = False
        for cd in cds:
            for b in range(len(fn.blocks)):
                t = fn.blocks[b]['t']
                if t[0] == 'switch':
                    p = fn.prov_operand(t[1])
                    if p.root[0] == 'call' and p.root[1].key() == cd.key() and not p.path:
                        tt, ff = lib.bool_switch_arms(fn, b)
                        if fn.edge_dominates(b, tt, s.b):
                            ok = True
        R.ob('ONLY-UNDER', k, ok, '%s lies on the `true` arm of contains_data(..); %s' % (lib.desc(s), why), s.where, fn)


def container(F, R):
    add, rem, rec, upd = F.fn(C + 'add'), F.fn(C + 'remove'), F.fn(C + 'recover'), F.fn(C + 'update_state')
    # ------------------------------------------------------------- add
    acq = add.calls(r'RobustUniqueIndexSet::acquire$')
    ld = atomics(add, ELEM, 'load')
    mark = ord_floor(R, add, ELEM, 'compare_exchange(_weak)?', 0, 'A', 'mark-empty must be ordered before the overwrite of the slot')
    pub = ord_floor(R, add, ELEM, 'fetch_add', 0, 'R', 'publishes the copied value (odd counter)')
    chg = ord_floor(R, add, CHG, 'fetch_add', 0, 'R', 'MUST HAPPEN AFTER all other operations: readers acquire it first')
    cp = raw(add, 'copy', r'-> self\.data_ptr')
    dom(R, add, acq, sites_of(ld), 'index-acquire<element-counter-load', 'the slot is owned before it is inspected')
    dom(R, add, sites_of(ld), cp, 'element-counter-load<copy', 'slot state known before it is overwritten')
    dom(R, add, cp, sites_of(pub), 'copy<release-increment(element counter)', 'value complete before it is published')
    dom(R, add, sites_of(pub), sites_of(chg), 'element-increment<change-counter', 'change counter is bumped last')
    pdom(R, add, cp, sites_of(pub), 'copy|>element-increment', 'a written slot is always published')
    pdom(R, add, cp, sites_of(chg), 'copy|>change-counter', 'every completed add is noticed by the next refresh')
    under_contains_data(R, add, sites_of(mark), 'mark-empty-only-if-odd', 'an even counter is already empty')
    # the copy is never reached on the odd arm without passing the mark-empty CAS
    cds = add.calls(r'Container::<T>::contains_data$')
    for cd in cds:
        for b in range(len(add.blocks)):
            t = add.blocks[b]['t']
            if t[0] == 'switch':
                p = add.prov_operand(t[1])
                if p.root[0] == 'call' and p.root[1].key() == cd.key():
                    tt, ff = lib.bool_switch_arms(add, b)
                    pth = add.exists_path(core.Site(add, tt, -1, ['arm']), cp, sites_of(mark))
                    R.ob('NO-PATH', 'NO-PATH::%s::odd-slot-marked-empty-before-copy' % fnkey(add), pth is None,
                         'on the contains_data==true arm the copy is reached only through the mark-empty CAS%s' % ('' if pth is None else ' -- bypass %s' % pth), cd.where, add)
    # ------------------------------------------------------------- remove
    rl = rem.calls(r'RobustUniqueIndexSet::release$')
    ld = atomics(rem, ELEM, 'load')
    cas = atomics(rem, ELEM, 'compare_exchange(_weak)?')
    chg = ord_floor(R, rem, CHG, 'fetch_add', 0, 'R', 'MUST HAPPEN AFTER all other operations')
    dom(R, rem, sites_of(ld), rl, 'element-counter-load<index-release', 'the counter value of the owned slot is sampled while it is still owned')
    dom(R, rem, rl, sites_of(cas), 'index-release<mark-empty-CAS', 'slot is marked empty only after ownership was given up successfully')
    dom(R, rem, sites_of(cas), sites_of(chg), 'mark-empty<change-counter', 'change counter is bumped last')
    dom(R, rem, sites_of(chg), rem.ok_exit_sites(), 'change-counter<Ok', 'every completed remove is noticed by the next refresh')
    if rl:
        lib.only_under(R, rem, F, sites_of(cas), rl[0], {'Ok'}, 'mark-empty-under-release-Ok', 'a foreign handle must not empty a slot')
    # ------------------------------------------------------------- recover
    rc = rec.calls(r'RobustUniqueIndexSet::recover')
    chg = ord_floor(R, rec, CHG, 'fetch_add', 0, 'R', 'MUST HAPPEN AFTER all other operations')
    pdom(R, rec, rc, sites_of(chg), 'index-recover|>change-counter', 'every completed recovery is noticed by the next refresh')
    cl = [c for c in F.closures_of(rec) if atomics(c, None, 'load')]
    if len(cl) != 1:
        R.missing('Container::recover predicate closure with the read protocol')
    else:
        p = cl[0]
        ld = ord_floor(R, p, r'element_generation_counter_ptr', 'load', 0, 'A', 'SYNC POINT with reading data values')
        cs = ord_floor(R, p, r'element_generation_counter_ptr', 'compare_exchange(_weak)?', 0, 'R', 'orders the copy\'s reads before the validation')
        ord_floor(R, p, r'element_generation_counter_ptr', 'compare_exchange(_weak)?', 1, 'A', 'a retry re-reads the slot')
        cp = raw(p, 'copy', r'data_ptr')
        dom(R, p, sites_of(ld), cp, 'acquire-load<copy', 'read protocol')
        dom(R, p, cp, sites_of(cs), 'copy<validating-CAS', 'read protocol')
        under_contains_data(R, p, cp, 'copy-only-if-odd', 'an even counter holds no data')
        pred = [s for s in p.sites if s.is_call and s.callee is None or (s.is_call and re.search(r'FnMut<.*>>::call_mut$|FnMut::call_mut$', s.callee or ''))]
        dom(R, p, sites_of(cs), pred, 'validating-CAS<user-predicate', 'the predicate only sees validated values')
    # every CAS that advances an element counter by one outside add() turns "odd" into "even" (marks empty): it must only run
    # when the recorded counter says the slot contains data - otherwise an even (empty, e.g. owner died inside add) slot would be
    # flipped to odd = a ghost entry with uninitialised content
    nmark = 0
    for body, label in [(rem, 'remove')] + [(c, 'recover-on_success') for c in F.closures_of(rec) if not atomics(c, None, 'load')]:
        for a in atomics(body, r'element_generation_counter_ptr', 'compare_exchange(_weak)?'):
            e, n_ = sym_nstr(sym(body, a.site.args[1])), sym_nstr(sym(body, a.site.args[2]))
            if not (n_.startswith('(' + e + ' + 1)') or n_ == '(%s + 1)' % e or n_ == '(1 + %s)' % e):
                continue
            nmark += 1
            if label == 'remove':
                # the handle proves a completed add: expected value was sampled while the index was still owned (DOM rule above)
                R.ob('ONLY-UNDER', 'ONLY-UNDER::%s::mark-empty-expects-owned-slot' % fnkey(body), True, 'remove(): the expected value of the mark-empty CAS was loaded while the handle still owned the slot (slot of a completed add is odd)', a.site.where, body)
                continue
            conds = lib.path_conds(body, a.site, F)
            ok_ = any('contains_data' in c and not c.startswith('!') for c in conds)
            R.ob('ONLY-UNDER', 'ONLY-UNDER::%s::mark-empty-only-if-odd' % fnkey(body), ok_, 'the CAS(v, v + 1) of %s is guarded by %s ; required contains_data(v): for an even v (owner died inside add before publishing) the increment would create a ghost entry' % (label, conds), a.site.where, body)
    R.floor('mark-empty CAS sites outside add', nmark, 2)
    # ------------------------------------------------------------- update_state
    first = ord_floor(R, upd, CHG, 'load', 0, 'A', 'MUST HAPPEN BEFORE all other operations')
    ld = ord_floor(R, upd, ELEM, 'load', 0, 'A', 'SYNC POINT with reading data values')
    cs = ord_floor(R, upd, ELEM, 'compare_exchange(_weak)?', 0, 'R', 'orders the copy\'s reads before the validation')
    ord_floor(R, upd, ELEM, 'compare_exchange(_weak)?', 1, 'A', 'a retry re-reads the slot')
    cp = raw(upd, 'copy', r'^self\.data_ptr')
    others = sites_of(ld) + sites_of(cs) + cp
    dom(R, upd, sites_of(first), others, 'change-counter-load<everything', 'a change completed before the refresh began is never missed')
    dom(R, upd, sites_of(ld), cp, 'acquire-load<copy', 'read protocol')
    under_contains_data(R, upd, cp, 'copy-only-if-odd', 'an even counter holds no data (no ghost entries)')
    # after a copy the element is finished only through the validating CAS
    no_path(R, upd, cp, upd.ret_sites() + sites_of(ld), sites_of(cs), 'copy-validated-before-next-element', 'a torn copy must be detected', rule='LOOP')
    # after a failed CAS the loop cannot leave the element without re-checking: from CAS, reaching next element load/return requires CAS-Ok arm or the equality test
    for c in sites_of(cs):
        sw = lib.switches_on_result_of(upd, c)
        ok = False
        detail = 'no match on the CAS result'
        for b in sw:
            errs = lib.arm_blocks(upd, b, lambda l: l == 'Err', F)
            for lab, tgt in errs:
                # from the Err arm, the next element / return is reachable only via the equality test block (a switch on `==`)
                eq_sw = [upd.term_site(bb) for bb in range(len(upd.blocks)) if upd.blocks[bb]['t'][0] == 'switch' and
                         re.search(r' (==|!=) ', sym_nstr(sym(upd, upd.blocks[bb]['t'][1]))) and 'element_generation_counter' in sym_nstr(sym(upd, upd.blocks[bb]['t'][1]))]
                pth = upd.exists_path(core.Site(upd, tgt, -1, ['arm']), upd.ret_sites() + sites_of(ld), eq_sw)
                ok = pth is None and bool(eq_sw)
                detail = 'from the CAS-Err arm the element is left only through the `counter == recorded` test%s' % ('' if pth is None else ' -- bypass %s' % pth)
        R.ob('LOOP', 'LOOP::%s::failed-validation-retries' % fnkey(upd), ok, detail, c.where, upd)
    # the change counter observed first is recorded, and "nothing changed" is reported exactly when it equals the recorded one
    recs = [s for s in upd.sites if s.i != "T" and s.node[0] == "a" and len(s.node[1]) > 1 and s.node[1][-1] == ".current_change_counter"]
    ok = False
    detail = 'no assignment to previous_state.current_change_counter'
    for s in recs:
        v = sym_nstr(sym(upd, s.node[2][1])) if s.node[2][0] == 'use' else sym_nstr(('?', s.node[2][0]))
        detail = 'previous_state.current_change_counter = %s' % v[:120]
        loads_cc = [a for a in atomics(upd, CHG, 'load')]
        pr_ = upd.prov_operand(s.node[2][1]) if s.node[2][0] == 'use' else None
        same_load = pr_ is not None and pr_.root[0] == 'call' and len(loads_cc) == 1 and pr_.root[1].key() == loads_cc[0].site.key()
        scan = [a.site for a in atomics(upd, None, 'load') if 'element_generation_counter' in a.recv]
        before_scan = bool(scan) and all(upd.dominates(s, x) for x in scan)
        detail += ' ; %d change-counter load(s), recorded value %s that load, recorded %s the element scan' % (len(loads_cc), 'is' if same_load else 'is NOT', 'before' if before_scan else 'NOT before')
        ok = 'Atomic::load(self.change_counter' in v and all(upd.dominates(f_, s) for f_ in sites_of(first)) and same_load and before_scan
    R.ob('FLOW', 'FLOW::%s::observed-change-counter-recorded' % fnkey(upd), ok, detail + ' ; required the value loaded first, recorded before the scan (a change that completes during the scan on an already visited slot must make the NEXT refresh scan again)', recs[0].where if recs else upd.file, upd)
    falses = [s for s in upd.sites if s.i != 'T' and s.node[0] == 'a' and s.node[1] == [0] and s.node[2][0] == 'use' and s.node[2][1][0] == 'k' and s.node[2][1][3] == 0]
    okf = False
    conds = []
    for s in falses:
        conds = lib.path_conds(upd, s, F)
        okf = any(' == ' in c and 'current_change_counter' in c and 'Atomic::load(self.change_counter' in c for c in conds)
    R.ob('ONLY-UNDER', 'ONLY-UNDER::%s::unchanged-iff-counter-equal' % fnkey(upd), okf and len(falses) == 1, '`false` (nothing changed) is returned under %s ; required recorded counter == loaded counter' % [c[:140] for c in conds], falses[0].where if falses else upd.file, upd)
    # ------------------------------------------------------------- parity test
    cd = F.fn(C + 'contains_data')
    t = sym_nstr(core.sym_place(cd, [0]))
    R.ob('SYM-EQ', 'SYM-EQ::%s::parity' % fnkey(cd), lib.canon(cd, t) in ('(1 == ($1 % 2))', '(($1 % 2) == 1)'), 'contains_data = %s ; required generation_counter %% 2 == 1' % t, '%s:%s' % (cd.file, cd.line), cd)
    users = set(s.fn.id for s in F.callers_of(r'Container::<T>::contains_data$'))
    R.floor('contains_data users', len(users), 3)
    # nobody re-implements the parity test on the element counter
    n = 0
    for f in [add, rem, rec, upd] + F.closures_of(rec):
        for s in f.sites:
            if s.i != 'T' and s.node[0] == 'a' and s.node[2][0] == 'bin' and s.node[2][1] == 'Rem':
                n += 1
                R.ob('SIBLINGS', 'SIBLINGS::%s::no-inline-parity-test' % fnkey(f), False, 'a `%%` in a container protocol function: parity must go through contains_data', s.where, f)
    R.ob('SIBLINGS', 'SIBLINGS::container::parity-only-via-contains_data', n == 0, 'no inline `%` in add/remove/recover/update_state', cd.file, cd)


def dynamic_configs(F, R):
    DC = r'^iceoryx2::service::dynamic_config::(\w+)::DynamicConfig::'
    adds = F.find_fns(DC + r'add_(\w+)_id$')
    rels = {re.search(r'release_(\w+)_handle$', f.id).group(1): f for f in F.find_fns(DC + r'release_(\w+)_handle$')}
    R.floor('port kinds with add_*_id', len(adds), 8)
    for a in adds:
        kind = re.search(r'add_(\w+)_id$', a.id).group(1)
        cs = a.calls(r'mpmc::container::Container::<.*>::add$')
        key = 'SIBLINGS::%s::' % fnkey(a)
        if len(cs) != 1:
            R.ob('SIBLINGS', key + 'one-container-add', False, 'anchor-missing: expected one Container::add call, found %d' % len(cs), a.file, a)
            continue
        recv = a.chain(cs[0].args[0])
        owner = sym_nstr(sym(a, cs[0].args[2]))
        R.ob('SIBLINGS', key + 'owner-is-node-owner-id', bool(re.search(r'owner_id\(details\.node_id\)', owner)), 'registered under owner `%s`; required details.node_id.owner_id() (recovery of a dead node finds its ports by this id)' % owner, cs[0].where, a)
        r = rels.get(kind)
        if r is None:
            R.ob('SIBLINGS', key + 'has-release', False, 'no release_%s_handle sibling' % kind, a.file, a)
            continue
        rs = r.calls(r'mpmc::container::Container::<.*>::remove$')
        if len(rs) != 1:
            R.ob('SIBLINGS', 'SIBLINGS::%s::one-container-remove' % fnkey(r), False, 'expected one Container::remove call, found %d' % len(rs), r.file, r)
            continue
        recv2 = r.chain(rs[0].args[0])
        R.ob('SIBLINGS', 'SIBLINGS::%s::same-container-as-add' % fnkey(r), recv == recv2, 'add uses %s, release uses %s' % (recv, recv2), rs[0].where, r)


def check(F, R, tier):
    # the registry's index set (robust_unique_index_set.rs is an anchor of this property): a slot is freed only by the owner-checked CAS
    # (C09's rule): a blind reset hands the slot of a live port out a second time = an entry nobody added appears, a registered one vanishes
    from . import C09 as _C09
    _C09.robust(F, R)
    lib.cas_loops_fresh(R, F, r'^iceoryx2_bb_lock_free::mpmc::container::Container', 2, 'a decision computed once before the loop is stale after the first failed CAS')
    container(F, R)
    dynamic_configs(F, R)


LEVEL_TEXT = ("Decides on all CFG paths the writer/reader step order of the registry container, its ordering floors, the retry structure of "
              "the reader and the uniform use of the container by all port registries. Necessary conditions of torn-free/ghost-free snapshots; "
              "snapshot semantics over interleavings is not decided.")
LEVEL_NOTE = "Trusted: rustc MIR; floor table of DESIGN.md C10. Not decided: behaviour over schedules."
TECHNIQUE = "static analysis: MIR dominance/post-dominance chains, ordering-constant floors, loop re-validation path rules, sibling cross-check"
