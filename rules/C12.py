"""C12 - blackboard: seqlock order and floors in UnrestrictedAtomic store/load, producer-token pairing, who may bump the write
cell, single writer slot."""
import re
from . import core, lib
from .core import sym, sym_nstr, sym_norm
from .lib import ord_floor, dom, pdom, no_path, atomics, raw, sites_of, fnkey, const_arg

EXPLANATION = (
    "Static rules over MIR of spmc/unrestricted_atomic.rs and port/writer.rs: ORD floors (release increment of the write cell, "
    "acquire load + release/acquire re-validating CAS on the read side, acquire/release on the producer flag); DOM (cell write "
    "before the increment; load < copy < CAS); LOOP (a failed validation re-copies); SYM-EQ (reader uses cell counter-1, writer "
    "cell counter, both modulo NUMBER_OF_CELLS = power of two); WHO-MAY-CALL (write cell is modified only by the three store-side "
    "functions; producer flag only by acquire/release); MUST-CALL in Drop of every token type; writer slot capacity is the "
    "constant 1. Necessary conditions of tear-free, monotone reads and single-writer; tear-freedom over all overlaps is not decided.")
NOT_DECIDED = "tear-freedom and monotonicity for all overlaps of reads and writes"

UA = 'iceoryx2_bb_lock_free::spmc::unrestricted_atomic::'
WC = r'write_cell$'


def type_check_coverage(F, R):
    """Reader/Writer::get_entry_offset hand out a typed handle only if the requested value type equals the stored TypeDetail in EVERY field
    (variant, type_name, size, alignment): a same-named type of another size would make the handle copy across both seqlock cells / into the
    neighbouring entry.  Either the whole struct is compared, or the field-wise comparisons cover all fields of TypeDetail."""
    td = F.adts.get('iceoryx2::service::static_config::message_type_details::TypeDetail')
    if not td:
        R.missing('TypeDetail')
        return
    allf = set(x['name'] for x in td['variants'][0]['fields'])
    n = 0
    for f in F.find_fns(r'^iceoryx2::port::(reader::Reader|writer::Writer)::<.*>::get_entry_offset$'):
        n += 1
        whole = False
        fields = set()
        for s_ in f.sites:
            if s_.is_call and s_.callee and re.search(r'PartialEq.*::(ne|eq)$', s_.callee):
                a = [sym_nstr(sym(f, x)) for x in s_.args]
                if any(x.endswith('.type_details') for x in a):
                    whole = True
                for x in a:
                    m = re.search(r'\.type_details\.(\w+)$', x)
                    if m:
                        fields.add(m.group(1))
        for b in range(len(f.blocks)):
            t = f.blocks[b]['t']
            if t[0] == 'switch':
                for m in re.finditer(r'\.type_details\.(\w+)', sym_nstr(sym(f, t[1]))):
                    fields.add(m.group(1))
        R.ob('COVERAGE', 'COVERAGE::%s::type-check-covers-every-TypeDetail-field' % fnkey(f), whole or fields >= allf, 'the stored type is compared %s; TypeDetail has %s' % ('as a whole struct' if whole else 'field-wise on %s (missing: %s)' % (sorted(fields), sorted(allf - fields)), sorted(allf)), '%s:%s' % (f.file, f.line), f)
    R.floor('get_entry_offset functions', n, 2)


def check(F, R, tier):
    from . import C04
    C04.dead_port_tokens_released(F, R)   # the producer token of a writer that died is given back (one writer at a time, but not none for ever)
    type_check_coverage(F, R)
    lib.cas_loops_fresh(R, F, r'^iceoryx2_bb_lock_free::spmc::unrestricted_atomic::', 1, 'a decision computed once before the loop is stale after the first failed CAS')
    store = F.fn(UA + 'UnrestrictedAtomic::<T>::store')
    upd1 = F.fn(UA + "Producer::<'_, T>::__internal_update_write_cell")
    upd2 = F.fn(UA + 'UnrestrictedAtomicMgmt::__internal_update_write_cell')
    load = F.fn(UA + 'UnrestrictedAtomicMgmt::load')
    # ---- store side
    publishers = (store, upd1, upd2)
    delegated = 0
    for f in publishers:
        if not atomics(f, WC, 'fetch_add'):
            # the increment may be delegated to a sibling publisher (one shared helper instead of a duplicated fetch_add); the ordering is
            # then judged at the sibling, provided the call happens on every path
            dl = [c for g in publishers if g is not f for c in f.calls(re.escape(g.id) + '$')]
            if dl and f.exists_path(None, f.ret_sites(), dl, from_entry=True) is None:
                delegated += len(dl)
                R.ob('ORD', 'ORD::%s::%s.fetch_add[order]>=R' % (fnkey(f), WC), True, 'increment delegated to %s on every path' % core.short(dl[0].callee), dl[0].where, f)
                continue
        ord_floor(R, f, WC, 'fetch_add', 0, 'R', 'SYNC POINT - write: the cell content is published by this increment')
        for a in atomics(f, WC, 'fetch_add'):
            const_arg(R, f, a.site, 1, {1}, 'write-cell-step', 'cells alternate: the counter advances by exactly one per store')
    w = raw(store, 'write')
    fa = sites_of(atomics(store, WC, 'fetch_add'))
    dom(R, store, w, fa, 'cell-write<release-increment', 'value complete before it becomes the readable cell')
    pdom(R, store, w, fa, 'cell-write|>increment', 'a written cell is always published')
    # which cell does store() write: write_cell % NUMBER_OF_CELLS
    idx = [s for s in store.sites if s.i != 'T' and s.node[0] == 'a' and s.node[2][0] == 'bin' and s.node[2][1] == 'Rem']
    for s in idx:
        t = sym_nstr(sym(store, s.node[2][2])), sym_nstr(sym(store, s.node[2][3]))
        R.ob('SYM-EQ', 'SYM-EQ::%s::write-index' % fnkey(store), 'write_cell' in t[0] and '- 1' not in t[0] and t[1] == '2', 'store writes cell (%s) %% %s ; required counter %% NUMBER_OF_CELLS(2)' % t, s.where, store)
    R.floor('store index expressions', len(idx), 1)
    nc = F.consts.get(UA + 'NUMBER_OF_CELLS')
    R.ob('CONST', 'CONST::%sNUMBER_OF_CELLS::power-of-two' % UA, bool(nc) and isinstance(nc['val'], int) and nc['val'] >= 2 and nc['val'] & (nc['val'] - 1) == 0,
         'NUMBER_OF_CELLS = %s (wrap-around of the u64 counter keeps cell parity only for powers of two)' % (nc['val'] if nc else None), UA)
    # ---- load side
    ld = ord_floor(R, load, WC, 'load', 0, 'A', 'SYNC POINT - read')
    cs = ord_floor(R, load, WC, 'compare_exchange(_weak)?', 0, 'R', 'orders the copy\'s reads before the validation')
    ord_floor(R, load, WC, 'compare_exchange(_weak)?', 1, 'A', 'a retry must see the newer cell content')
    cp = raw(load, 'copy')
    dom(R, load, sites_of(ld), cp, 'acquire-load<copy', 'seqlock read')
    dom(R, load, cp, sites_of(cs), 'copy<validating-CAS', 'seqlock read')
    no_path(R, load, cp, load.ret_sites(), sites_of(cs), 'copy-validated-before-return', 'a torn copy must be detected', rule='LOOP')
    for c in sites_of(cs):
        e, n = sym_nstr(sym(load, c.args[1])), sym_nstr(sym(load, c.args[2]))
        R.ob('SYM-EQ', 'SYM-EQ::%s::validating-CAS-is-identity' % fnkey(load), e == n, 'CAS(expected=%s, new=%s): the reader must not change the counter' % (e, n), c.where, load)
        for b in lib.switches_on_result_of(load, c):
            for lab, tgt in lib.arm_blocks(load, b, lambda l: l == 'Err', F):
                pth = load.exists_path(core.Site(load, tgt, -1, ['arm']), load.ret_sites(), cp)
                R.ob('LOOP', 'LOOP::%s::failed-validation-re-copies' % fnkey(load), pth is None, 'from the CAS-Err arm a return is reachable only through another copy%s' % ('' if pth is None else ' -- bypass %s' % pth), c.where, load)
    dc = load.calls(r'__internal_get_data_cell$')
    for c in dc:
        t = sym_nstr(sym(load, c.args[3]))
        R.ob('SYM-EQ', 'SYM-EQ::%s::read-index' % fnkey(load), bool(re.search(r'- 1\)$', t)), 'reader copies cell `%s` ; required counter - 1 (the last completed cell)' % t, c.where, load)
    R.floor('load data-cell computations', len(dc), 1)
    gp = F.fn(UA + 'UnrestrictedAtomicMgmt::__internal_get_ptr_to_write_cell')
    for c in gp.calls(r'__internal_get_data_cell$'):
        t = sym_nstr(sym(gp, c.args[3]))
        R.ob('SYM-EQ', 'SYM-EQ::%s::write-index' % fnkey(gp), '__internal_get_write_cell' in t and '- 1' not in t and '+' not in t, 'writer fills cell `%s` ; required the counter itself' % t, c.where, gp)
    gdc = F.fn(UA + 'UnrestrictedAtomicMgmt::__internal_get_data_cell')
    rems = [s for s in gdc.sites if s.i != 'T' and s.node[0] == 'a' and s.node[2][0] == 'bin' and s.node[2][1] == 'Rem']
    for s in rems:
        t = sym_nstr(sym(gdc, s.node[2][2])), sym_nstr(sym(gdc, s.node[2][3]))
        R.ob('SYM-EQ', 'SYM-EQ::%s::cell-modulus' % fnkey(gdc), lib.param_is(gdc, s.node[2][2], 'cell', 4) and t[1] == '2', 'data cell = (%s) %% %s' % t, s.where, gdc)
    R.floor('get_data_cell modulus', len(rems), 1)
    # ---- who may modify the write cell
    allowed = {store.id, upd1.id, upd2.id, load.id}
    n = 0
    for f in F.fn_list:
        if f.crate not in ('iceoryx2_bb_lock_free', 'iceoryx2', 'iceoryx2_cal', 'iceoryx2_ffi_c'):
            continue
        for a in f.atomic_ops():
            if re.search(r'(^|\.)write_cell$', a.recv) and a.op != 'load':
                n += 1
                R.ob('WHO-MAY-CALL', 'WHO-MAY-CALL::write_cell-modified-in::%s' % fnkey(f), f.id in allowed, '%s on %s; only store / __internal_update_write_cell (and the identity CAS in load) may touch the write cell' % (a.op, a.recv), a.site.where, f)
    R.floor('write_cell modification sites', n + delegated, 4)
    # ---- producer token
    acq = F.fn(UA + 'UnrestrictedAtomicMgmt::__internal_acquire_producer')
    rel = F.fn(UA + 'UnrestrictedAtomicMgmt::__internal_release_producer')
    cas = ord_floor(R, acq, r'has_producer$', 'compare_exchange(_weak)?', 0, 'A', 'SYNC POINT: producer hand-over')
    for c in cas:
        const_arg(R, acq, c.site, 1, {1}, 'expects-true', 'token is taken only if available')
        const_arg(R, acq, c.site, 2, {0}, 'sets-false', 'token becomes unavailable')
    st = ord_floor(R, rel, r'has_producer$', 'store', 0, 'R', 'SYNC POINT: producer hand-over')
    for s in st:
        const_arg(R, rel, s.site, 1, {1}, 'stores-true', 'token becomes available again')
    n = 0
    for f in F.fn_list:
        for a in f.atomic_ops():
            if re.search(r'(^|\.)has_producer$', a.recv) and a.op != 'load' and 'unrestricted_atomic' in f.file:
                n += 1
                R.ob('WHO-MAY-CALL', 'WHO-MAY-CALL::has_producer-modified-in::%s' % fnkey(f), f.id in (acq.id, rel.id), '%s on %s' % (a.op, a.recv), a.site.where, f)
    # every caller of acquire builds a token type on the Ok/Some arm whose Drop releases
    callers = F.callers_of(r'UnrestrictedAtomicMgmt::__internal_acquire_producer$')
    R.floor('__internal_acquire_producer call sites', len(callers), 2)
    drops_ok = 0
    for tok in (UA + 'Producer', 'iceoryx2::port::writer::__InternalEntryHandleMut'):
        ds = F.find_fns(r'^<%s<.*> as core::ops::drop::Drop>::drop$' % re.escape(tok))
        key = 'MUST-CALL::Drop(%s)::release_producer' % tok
        if len(ds) != 1:
            R.ob('MUST-CALL', key, False, 'anchor-missing: Drop impl of the token type', tok)
            continue
        d = ds[0]
        rc = d.calls(r'__internal_release_producer$')
        p = d.exists_path(None, d.ret_sites(), rc, from_entry=True)
        R.ob('MUST-CALL', key, bool(rc) and p is None, 'Drop releases the producer token on every path', '%s:%s' % (d.file, d.line), d)
        drops_ok += 1
    for c in callers:
        f = c.fn
        if f.id.endswith('::acquire_producer'):
            toks = lib.agg_sites(f, r'unrestricted_atomic::Producer$')
            lib.only_under(R, f, F, toks, c, {'Ok'}, 'token-built-only-on-Ok', 'a Producer exists only if the flag was won')
        elif '__InternalEntryHandleMut' in f.id:
            toks = lib.agg_sites(f, r'__InternalEntryHandleMut$')
            lib.only_under(R, f, F, toks, c, {'Ok'}, 'token-built-only-on-Ok', 'a handle exists only if the flag was won')
        else:
            R.ob('WHO-MAY-CALL', 'WHO-MAY-CALL::__internal_acquire_producer::%s' % fnkey(f), False, 'unexpected caller of __internal_acquire_producer (no token type with a releasing Drop known)', c.where, f)
    # EntryHandleMut::new: HandleAlreadyExists exactly on the None arm of acquire_producer
    ehm = F.find_fns(r'^iceoryx2::port::writer::EntryHandleMut::<.*>::new$')
    if len(ehm) != 1:
        R.missing('EntryHandleMut::new')
    else:
        f = ehm[0]
        ap = f.calls(r'UnrestrictedAtomic::<.*>::acquire_producer$')
        errs = lib.agg_sites(f, r'EntryHandleMutError$', 'HandleAlreadyExists')
        if ap:
            lib.only_under(R, f, F, errs, ap[0], {'None'}, 'HandleAlreadyExists-on-None', 'second handle is refused')
            lib.only_under(R, f, F, f.ok_exit_sites(), ap[0], {'Some'}, 'Ok-on-Some', 'a handle is created only with the token')
        else:
            R.missing('acquire_producer call in EntryHandleMut::new')
    # ---- writer.rs: every __internal_update_write_cell is dominated by a write through the loaned pointer
    n = 0
    for f in F.find_fns(r'^iceoryx2::port::writer::EntryValueUninit::<.*>::update_with_copy$'):
        ups = f.calls(r'__internal_update_write_cell$')
        # publishing may be delegated to a sibling of the same type that publishes (assume_init_and_update): the write still precedes it
        pubs = {g_.id for g_ in F.find_fns(r'^iceoryx2::port::writer::EntryValueUninit::<.*>::\w+$') if g_.calls(r'__internal_update_write_cell$') and g_ is not f}
        ups += [c_ for c_ in f.sites if c_.is_call and c_.callee in pubs]
        ws = raw(f, 'write', r'self\.ptr')
        dom(R, f, ws, ups, 'ptr-write<update_write_cell', 'the loaned cell is filled before it is published')
        n += len(ups)
    R.floor('EntryValueUninit::update_with_copy publish sites', n, 1)
    # ---- writer port slot: capacity 1 and released in Drop
    sc = F.find_fns(r'^iceoryx2::service::static_config::blackboard::StaticConfig::new$')
    if len(sc) != 1:
        R.missing('blackboard StaticConfig::new')
    else:
        f = sc[0]
        ok = False
        where = f.file
        for a in lib.agg_sites(f, r'static_config::blackboard::StaticConfig$'):
            names = a.node[2][1][3]
            if 'max_writers' in names:
                v = f.const_of(a.node[2][2][names.index('max_writers')])
                ok = v == 1
                where = a.where
                R.ob('CONST', 'CONST::%s::max_writers=1' % fnkey(f), ok, 'max_writers = %r' % v, where, f)
    for f in F.find_fns(r'^iceoryx2::service::builder::blackboard::'):
        for a in lib.agg_sites(f, r'dynamic_config::blackboard::DynamicConfigSettings$'):
            names = a.node[2][1][3]
            if 'number_of_writers' in names:
                t = sym_nstr(sym(f, a.node[2][2][names.index('number_of_writers')]))
                R.ob('FLOW', 'FLOW::%s::number_of_writers<-max_writers' % fnkey(f), t.endswith('max_writers'), 'writer registry capacity = %s' % t, a.where, f)
    wd = F.find_fns(r'^<iceoryx2::port::writer::WriterSharedState<.*> as core::ops::drop::Drop>::drop$')
    if len(wd) != 1:
        R.missing('Drop for WriterSharedState')
    else:
        d = wd[0]
        rc = d.calls(r'release_writer_handle$')
        R.ob('MUST-CALL', 'MUST-CALL::%s::release_writer_handle' % fnkey(d), bool(rc), 'writer slot is given back in Drop (under `if let Some(handle)`)', rc[0].where if rc else d.file, d)


LEVEL_TEXT = ("Decides on all CFG paths the seqlock order and ordering floors of UnrestrictedAtomic store/load, the cell index agreement, "
              "who may modify the write cell and the producer flag, token release in every Drop, and the constant single writer slot. "
              "Necessary conditions; tear-freedom over overlaps is not decided.")
LEVEL_NOTE = "Trusted: rustc MIR; floor table of DESIGN.md C12. Not decided: behaviour over schedules."
TECHNIQUE = "static analysis: MIR ordering-constant floors, dominance, who-may-call over the resolved call graph, symbolic index terms"
