"""C07 - liveness verdicts and exclusive stale cleanup: state-file lock before any permission change out of INIT, all three
files created with INIT permission, context file finalised / removed last, monitor opens the state file only after the
same-process check, cleaner acquires ownership only after winning the owner lock, cleaner abandoned on every error exit."""
import re
from . import core, lib
from .core import sym, sym_nstr
from .lib import dom, pdom, no_path, atomics, sites_of, fnkey, const_arg

EXPLANATION = (
    "Static rules over MIR of bb/posix/process_state.rs and node/mod.rs: CONST-ARG (three create_file calls pass "
    "INIT_PERMISSION); DOM (state_file.try_lock(Write) < every set_permission; write_val(pid) < context permission change; "
    "context file finalised last); aggregate order of the removal loops (context last); DOM/ONLY-UNDER in ProcessMonitor::state "
    "(state file opened only after the own-process comparison; Dead only from the arm where the lock state was read); "
    "ProcessCleaner::new (state()==Dead < second look at the lock < non-blocking owner try_lock; acquire_ownership only under "
    "try_lock -> Ok(Some)); NO-ERR-AFTER in remove_stale_resources_impl (every error exit after the cleaner exists abandons it). "
    "The verdict under all interleavings with the kernel's lock state is not decided.")
NOT_DECIDED = "the liveness verdict under every interleaving with the kernel's lock state; timing (creation timeout)"

PS = 'iceoryx2_bb_posix::process_state::'


def file_role(f, op):
    """Which of the three monitor files a File value is, decided from where its path comes from (not from variable names):
    generate_context_path / field context_path -> context; generate_owner_lock_path / field owner_lock_path -> owner_lock;
    otherwise a file opened/created from the plain path argument / field state_path -> state."""
    o = lib.origins(f, op)
    if any(x.endswith('generate_context_path') or x == 'field:context_path' for x in o):
        return 'context'
    if any(x.endswith('generate_owner_lock_path') or x == 'field:owner_lock_path' for x in o):
        return 'owner_lock'
    if any(x.endswith('::create_file') or x.endswith('::open_file') for x in o):
        return 'state'
    return None


def guard_create(F, R):
    f = F.fn(PS + 'ProcessGuardBuilder::create')
    cf = f.calls(r'ProcessGuardBuilder::create_file$')
    R.exact('create_file calls in ProcessGuardBuilder::create', len(cf), 3)
    for c in cf:
        t = sym_nstr(sym(f, c.args[1]))
        R.ob('CONST-ARG', 'CONST-ARG::%s::create_file-INIT_PERMISSION' % fnkey(f), t.endswith('INIT_PERMISSION'), 'create_file(.., %s); required INIT_PERMISSION (a monitor treats any other mode as initialised)' % t, c.where, f)
    lock = [c for c in f.calls(r'FileDescriptorManagement::try_lock$') if file_role(f, c.args[0]) == 'state']
    sp = f.calls(r'FileDescriptorManagement::set_permission$')
    R.exact('set_permission calls in ProcessGuardBuilder::create', len(sp), 3)
    dom(R, f, lock, sp, 'state_file.try_lock<set_permission', 'no file becomes readable before the liveness lock is held: a monitor that can read an unlocked state file says dead')
    for c in lock:
        const_arg(R, f, c, 1, {'Write'}, 'lock-type', 'monitors test for a write lock')
        lock_kept(F, R, f, c, 'liveness-lock')
    ctx = [c for c in sp if file_role(f, c.args[0]) == 'context']
    others = [c for c in sp if file_role(f, c.args[0]) != 'context']
    wv = [c for c in f.calls(r'File::write_val$') if file_role(f, c.args[0]) == 'context']
    dom(R, f, wv, ctx, 'context.write_val(pid)<context.set_permission', 'the process id is in place before the context file leaves INIT')
    dom(R, f, others, ctx, 'other-permissions<context-permission', 'the context file is the one `state()` keys "Starting" on: it is finalised last') if False else None
    for o in others:
        R.ob('DOM', 'DOM::%s::context-permission-last' % fnkey(f), all(f.dominates(o, c) for c in ctx) and bool(ctx), '%s precedes the context file\'s permission change (the context file is finalised last)' % lib.desc(o), o.where, f)
    dom(R, f, ctx, f.ok_exit_sites(), 'context.set_permission<Ok', 'a guard exists only when fully initialised')


def array_order(F, R, fn, key, why):
    """The removal loops iterate over `[&mut state, &mut owner_lock, &mut context]`: context must be the last element."""
    arrs = [s for s in fn.sites if s.i != 'T' and s.node[0] == 'a' and s.node[2][0] == 'agg' and s.node[2][1][0] == 'array' and len(s.node[2][2]) == 3
            and all(re.match(r'(self|this)\.', fn.chain(o)) for o in s.node[2][2])]
    k = 'ORDER::%s::%s' % (fnkey(fn), key)
    if not arrs:
        R.ob('ORDER', k, False, 'anchor-missing: 3-element array of the files', fn.file, fn)
        return
    for a in arrs:
        els = [fn.chain(o) for o in a.node[2][2]]
        last = els[-1].rsplit('.', 1)[-1]
        R.ob('ORDER', k, last == 'context' and len(set(els)) == 3, 'files are processed in the order %s; %s' % (els, why), a.where, fn)


def state_files(F, R):
    ds = F.find_fns(r'^<' + re.escape(PS) + r'StateFiles as core::ops::drop::Drop>::drop$')
    if len(ds) != 1:
        R.missing('Drop for StateFiles')
    else:
        array_order(F, R, ds[0], 'context-removed-last', 'a cleaner that dies mid-removal leaves the context file, so the node stays collectable')
    a = F.adt(PS + 'StateFiles')
    names = [x['name'] for x in a['variants'][0]['fields']]
    R.ob('FIELD-ORDER', 'FIELD-ORDER::%sStateFiles::has-three-files' % PS, set(names) >= {'state', 'owner_lock', 'context'}, 'fields %s' % names, '%s:%s' % (a['file'], a['line']))


def monitor_state(F, R):
    f = F.fn(PS + 'ProcessMonitor::state')
    opens = f.calls(r'ProcessMonitor::open_file$')
    st_open = [c for c in opens if f.chain(c.args[1]).endswith('state_path')]
    R.exact('state-file opens in ProcessMonitor::state', len(st_open), 1)
    # same-process comparison
    cmps = [s for s in f.sites if s.is_call and re.search(r'PartialEq>::eq$', s.callee or '') and any(any(x.endswith('Process::unique_id') for x in lib.origins(f, a)) for a in s.args) and any(any(x.endswith('File::read_val') for x in lib.origins(f, a)) for a in s.args)]
    dom(R, f, cmps, st_open, 'own-process-check<open(state file)', 'closing a second descriptor of one\'s own state file would drop the process\'s lock')
    # on the equal arm the function returns Alive without reaching the open
    for c in cmps:
        for b in range(len(f.blocks)):
            t = f.blocks[b]['t']
            if t[0] == 'switch':
                p = f.prov_operand(t[1])
                if p.root[0] == 'call' and p.root[1].key() == c.key():
                    tt, ff = lib.bool_switch_arms(f, b)
                    pth = f.exists_path(core.Site(f, tt, -1, ['arm']), st_open, [])
                    R.ob('NO-PATH', 'NO-PATH::%s::own-process-never-opens-state-file' % fnkey(f), pth is None, 'from the `my_process_id == other_process_id` arm the state file open is unreachable', c.where, f)
    # Dead only under a lock-state read of the state file
    dead = lib.agg_sites(f, r'process_state::ProcessState$', 'Dead')
    gls = [c for c in f.calls(r'FileDescriptorManagement::get_lock_state$') if file_role(f, c.args[0]) == 'state']
    dom(R, f, gls, dead, 'state_file.get_lock_state<Dead', 'Dead is concluded only from the state file\'s lock')
    dom(R, f, st_open, dead, 'open(state file)<Dead', 'Dead is concluded only with the state file at hand')
    R.exact('Dead verdict sites', len(dead), 1)
    # Starting is keyed on the context file's INIT permission
    starting = lib.agg_sites(f, r'process_state::ProcessState$', 'Starting')
    for s in starting:
        conds = [sym_nstr(sym(f, f.blocks[b]['t'][1])) for (b, tgt) in lib.guard_switches(f, s)]
        R.ob('ONLY-UNDER', 'ONLY-UNDER::%s::Starting-under-INIT_PERMISSION' % fnkey(f), any('INIT_PERMISSION' in c for c in conds), 'Starting is returned under %s' % conds[-2:], s.where, f)
    R.exact('Starting verdict sites', len(starting), 1)


def lock_kept(F, R, f, c, what):
    """The guard returned by try_lock `c` is leaked (kept for the lifetime of the file descriptor): a `leak` call consumes it and no
    drop of a FileLockGuard rooted at the call lies on a normal (non-unwind) path.  Dropping the guard issues F_UNLCK at once."""
    leaks = [l for l in f.calls(r'file_descriptor::FileLockGuard::<.*>::leak$|file_descriptor::FileLockGuard::leak$')
             if f.prov_operand(l.args[0]).root[0] == 'call' and f.prov_operand(l.args[0]).root[1].key() == c.key()]
    reach = set(f.reachable(0))
    drops = []
    for b in range(len(f.blocks)):
        t = f.blocks[b]['t']
        if t[0] != 'drop' or (reach is not None and b not in reach):
            continue
        pr = f.prov_place(t[1])
        if pr.root[0] == 'call' and pr.root[1].key() == c.key() and 'as:Some' in pr.path:
            drops.append(f.term_site(b))
    R.ob('PAIR', 'PAIR::%s::%s-guard-leaked-not-dropped' % (fnkey(f), what), bool(leaks) and not drops,
         'the %s guard of try_lock is consumed by leak() (%d site(s)) and never dropped (%d drop(s)%s): dropping it unlocks the file immediately and a second process would win the same lock' % (what, len(leaks), len(drops), ''.join(' @' + d.where for d in drops)), c.where, f)


def cleaner_new(F, R):
    f = F.fn(PS + 'ProcessCleaner::new')
    st = f.calls(r'ProcessMonitor::state$')
    gls = f.calls(r'FileDescriptorManagement::get_lock_state$')
    tl = f.calls(r'FileDescriptorManagement::try_lock$')
    acq = f.calls(r'::acquire_ownership$')
    R.exact('acquire_ownership calls in ProcessCleaner::new', len(acq), 3)
    dom(R, f, st, gls, 'state()<second-look-at-the-lock', 'verdict first')
    dom(R, f, gls, tl, 'lock-state-check<owner try_lock', 'a live process is never cleaned')
    for c in tl:
        R.ob('FLOW', 'FLOW::%s::try_lock-on-owner-lock-file' % fnkey(f), file_role(f, c.args[0]) == 'owner_lock', 'try_lock receiver is the %s file' % file_role(f, c.args[0]), c.where, f)
        const_arg(R, f, c, 1, {'Write'}, 'owner-lock-type')
        lock_kept(F, R, f, c, 'owner-lock')
        # only the winner acquires ownership (which makes StateFiles::drop delete the files)
        for a in acq:
            ok = False
            for b in lib.switches_on_result_of(f, c):
                pass
            # nested match: Ok(Some(_))
            for b in range(len(f.blocks)):
                si = f.switch_info(b)
                if si and 'discr_of' in si:
                    p = f.prov_place(si['discr_of'])
                    if p.root[0] == 'call' and p.root[1].key() == c.key() and 'as:Ok' in p.path:
                        for lab, tgt in lib.arm_blocks(f, b, lambda l: l == 'Some', F):
                            if f.edge_dominates(b, tgt, a.b):
                                ok = True
            R.ob('ONLY-UNDER', 'ONLY-UNDER::%s::acquire_ownership-under-try_lock-Ok(Some)' % fnkey(f), ok, '%s lies under try_lock == Ok(Some(_)): only the winner of the owner lock can ever remove anything' % lib.desc(a), a.where, f)
        # loser arm
        loser = lib.agg_sites(f, r'ProcessCleanerCreateError$', 'OwnedByAnotherProcess')
        okl = False
        for l in loser:
            for b in range(len(f.blocks)):
                si = f.switch_info(b)
                if si and 'discr_of' in si:
                    p = f.prov_place(si['discr_of'])
                    if p.root[0] == 'call' and p.root[1].key() == c.key() and 'as:Ok' in p.path:
                        for lab, tgt in lib.arm_blocks(f, b, lambda l_: l_ == 'None', F):
                            if f.edge_dominates(b, tgt, l.b):
                                okl = True
        R.ob('ONLY-UNDER', 'ONLY-UNDER::%s::OwnedByAnotherProcess-under-try_lock-Ok(None)' % fnkey(f), okl, 'the loser of the owner lock is told so', c.where, f)
    R.exact('owner try_lock sites', len(tl), 1)
    # verdict match: proceeds only on Dead
    if st:
        for b in range(len(f.blocks)):
            si = f.switch_info(b)
            if si and si.get('enum_ty', '') and si['enum_ty'].endswith('ProcessState'):
                p = f.prov_place(si['discr_of'])
                if p.root[0] == 'call' and p.root[1].key() == st[0].key():
                    arms = lib.arm_blocks(f, b, lambda l: l != 'Dead', F)
                    bad = []
                    for lab, tgt in arms:
                        pth = f.exists_path(core.Site(f, tgt, -1, ['arm']), tl, [])
                        if pth is not None and not f.edge_dominates(b, tgt, tgt) is False:
                            # the non-Dead arm reaches try_lock only if the arm block is shared with Dead
                            deadarm = lib.arm_blocks(f, b, lambda l: l == 'Dead', F)
                            if not deadarm or deadarm[0][1] != tgt:
                                bad.append(lab)
                    R.ob('ONLY-UNDER', 'ONLY-UNDER::%s::cleanup-proceeds-only-on-Dead' % fnkey(f), not bad, 'verdict arms that reach the owner try_lock besides Dead: %s' % bad, st[0].where, f)


def stale_cleanup(F, R):
    cands = [f for f in F.find_fns(r'^iceoryx2::node::.*::remove_stale_resources_impl$')]
    if len(cands) != 1:
        R.missing('remove_stale_resources_impl')
        return
    f = cands[0]
    acl = f.calls(r'acquire_cleaner_lock$')
    ab = f.calls(r'::abandon$')
    errs = f.err_exit_sites()
    # the cleaner exists once acquire_cleaner_lock returned Ok; the `?` on its own result is the only exit without a cleaner
    start = acl[0] if acl else None
    def own_residual(e):
        if e.is_call and e.args:
            p = f.prov_operand(e.args[0])
            r = p.root
            hops = 0
            while r[0] == 'call' and hops < 4:
                if r[1].key() == start.key():
                    return True
                if r[1].args and re.search(r'Try>::branch$|::branch$', r[1].callee or ''):
                    r = f.prov_operand(r[1].args[0]).root
                    hops += 1
                else:
                    break
        return False
    # ... spelled `?`, `fail!(when ..)` or an explicit match with a returning Err arm: exits under the Err arm of the decision on the
    # acquisition's own result happen without a cleaner
    errs = [e for e in errs if start is not None and not own_residual(e) and not lib.under_arm(f, F, e, start, ('Err', 'Break'))]
    key = 'NO-ERR-AFTER::%s::cleaner-abandoned-on-error' % fnkey(f)
    if start is None or not ab:
        R.ob('NO-ERR-AFTER', key, False, 'anchor-missing: cleaner creation (%s) / abandon() calls (%d)' % (start, len(ab)), f.file, f)
        return
    # group error exits by source line so that each distinct exit is one keyed instance
    seen = set()
    for e in errs:
        if not f.dominates(start, e):
            continue
        pth = f.exists_path(start, [e], ab)
        line_key = 'exit-after-' + ('service-tags' if False else '')
        # instance key: which call precedes the exit (resolved name of the last call dominating it), not a line number
        doms = [c for c in f.sites if c.is_call and c.callee and not c.macro and f.dominates(c, e) and f.dominates(start, c) and re.search(r'^iceoryx2', c.callee)]
        doms.sort(key=lambda c: len([1 for d in doms if f.dominates(d, c)]))
        anchor = core.short(doms[-1].callee) if doms else 'start'
        kind = 'fail' if (e.macro and 'fail' in e.macro) else 'question-mark'
        k = '%s::after(%s)::%s' % (key, anchor, kind)
        if k in seen and pth is None:
            continue
        seen.add(k)
        R.ob('NO-ERR-AFTER', k, pth is None, 'error exit (%s) after the cleaner exists must pass cleaner.abandon(): dropping the cleaner removes the dead node\'s monitor files while its tags still exist%s' % (kind, '' if pth is None else ' -- path without abandon %s' % pth), e.where, f)
    R.floor('abandon() calls in remove_stale_resources_impl', len(ab), 5)
    # in-process exclusivity
    cl = [c for c in F.closures_of(f) if atomics(c, None, 'swap')]
    R.ob('DOM', 'DOM::%s::in-process-cleanup-section' % fnkey(f), len(cl) == 1, 'IN_CLEANUP_SECTION.swap(true) guards the body (scope guard on_init)', cl[0].file + ':%s' % cl[0].line if cl else f.file, f)


def tracker(F, R):
    """In-process tracker discipline (F12): while a process holds a file lock of a monitored path, the tracker map has an entry for that path,
    so that a same-process state() never opens (and, on close, unlocks) a second descriptor of the locked file."""
    ds = F.find_fns(r'^<' + re.escape(PS) + r"TrackerGuard<.*> as core::ops::drop::Drop>::drop$")
    if len(ds) != 1:
        R.missing('Drop for TrackerGuard')
        return
    d = ds[0]
    loads = atomics(d, r'has_ownership', 'load')
    rms = d.calls(r'BTreeMap::<.*>::remove$')
    R.floor('tracker removals in TrackerGuard::drop', len(rms), 1)
    for r_ in rms:
        ok = False
        for l in loads:
            for b in range(len(d.blocks)):
                t = d.blocks[b]['t']
                if t[0] == 'switch':
                    p = d.prov_operand(t[1])
                    if p.root[0] == 'call' and p.root[1].key() == l.site.key():
                        tt, ff = lib.bool_switch_arms(d, b)
                        if d.edge_dominates(b, tt, r_.b):
                            ok = True
        R.ob('ONLY-UNDER', 'ONLY-UNDER::%s::entry-removed-only-by-owner' % fnkey(d), ok, 'the guard removes the tracker entry only when has_ownership is set: a released guard must leave the entry (otherwise the cleaner of a foreign process has no entry and a same-process state() unlocks the owner lock file)', r_.where, d)
    f = F.fn(PS + 'ProcessCleaner::new')
    nc = f.calls(r'TrackerGuard::<.*>::new_cleaning_up$|TrackerGuard::new_cleaning_up$')
    tl = f.calls(r'FileDescriptorManagement::try_lock$')
    R.exact('new_cleaning_up calls in ProcessCleaner::new', len(nc), 1)
    reach = set(f.reachable(0))
    for b in range(len(f.blocks)):
        t = f.blocks[b]['t']
        if t[0] == 'drop' and b in reach and 'process_state::TrackerGuard<' in str(t[-2] if isinstance(t[-2], str) else t):
            ds_ = f.term_site(b)
            pth = f.exists_path(ds_, tl, []) if nc and f.dominates(nc[0], ds_) else None
            R.ob('NO-PATH', 'NO-PATH::%s::tracker-guard-alive-until-owner-lock' % fnkey(f), pth is None, 'the TrackerGuard is not dropped on a path that still reaches the owner try_lock (a dropped guard can no longer undo / commit the entry)%s' % ('' if pth is None else ' -- %s' % pth), ds_.where, f)
    # the success path commits CleaningUp through a TrackerGuard method that also releases the guard's ownership
    commits = []
    for c in f.calls(r'process_state::TrackerGuard::<.*>::\w+$|process_state::TrackerGuard::\w+$'):
        g = F.fn_opt(c.callee)
        if g is None:
            continue
        if lib.agg_sites(g, r'process_state::ProcessState$', 'CleaningUp') and g.calls(r'TrackerGuard::<.*>::release_ownership$|TrackerGuard::release_ownership$'):
            commits.append((c, g))
    R.ob('DOM', 'DOM::%s::CleaningUp-committed<Ok' % fnkey(f), bool(commits) and all(any(f.dominates(c, e) for c, _ in commits) for e in f.ok_exit_sites()) and all(any(f.dominates(t_, c) for t_ in tl) for c, _ in commits),
         'every Ok exit is dominated by a commit of the CleaningUp entry (%s) which follows the owner try_lock' % [core.short(c.callee) for c, _ in commits], commits[0][0].where if commits else f.file, f)
    for c, g in commits:
        rel = g.calls(r'release_ownership$')
        pth = g.exists_path(core.Site(g, 0, -2, ['entry']), g.ret_sites(), rel)
        R.ob('MUST-CALL', 'MUST-CALL::%s::release_ownership' % fnkey(g), pth is None, 'the commit releases the guard\'s ownership on every path (so that the guard\'s drop keeps the entry)%s' % ('' if pth is None else ' -- %s' % pth), '%s:%s' % (g.file, g.line), g)
    # a path unknown to the tracker gets an entry
    for n in nc:
        g = F.fn_opt(n.callee)
        if g is None:
            R.missing('body of TrackerGuard::new_cleaning_up')
            continue
        ins = g.calls(r'Entry::<.*>::or_insert(_with)?$|BTreeMap::<.*>::insert$')
        R.ob('MUST-CALL', 'MUST-CALL::%s::inserts-entry-for-unknown-path' % fnkey(g), len(ins) >= 1, 'new_cleaning_up inserts a tracker entry when none exists (%d insertion site(s))' % len(ins), ins[0].where if ins else g.file, g)


def unlink_before_close(F, R):
    """File::remove_self (used by StateFiles::drop to tear the monitor files down): the path is unlinked BEFORE the descriptor is closed.
    Closing first releases the advisory lock while the file still exists: a monitor of another process sees an unlocked state file = Dead
    for a process that is merely shutting down, and a cleaner can be acquired."""
    fs = F.find_fns(r'^iceoryx2_bb_posix::file::File::remove_self$')
    if len(fs) != 1:
        R.missing('File::remove_self')
        return
    f = fs[0]
    rm = f.calls(r'file::File::remove$')
    reach = set(f.reachable(0))
    drops = []
    for b in range(len(f.blocks)):
        t = f.blocks[b]['t']
        if b in reach and t[0] == 'drop' and 'posix::file::File' in str(t[-2] if isinstance(t[-2], str) else t) and 'Builder' not in str(t[-2]):
            drops.append(f.term_site(b))
    drops += f.calls(r'core::mem::drop$')
    bad = [d for d in drops if any(f.exists_path(d, [r_], []) is not None for r_ in rm)]
    R.ob('DOM', 'DOM::%s::unlink<close' % fnkey(f), bool(rm) and not bad, 'File::remove(path) (%d site(s)) is not reachable after the descriptor was dropped/closed (%d drop site(s) precede it): unlink first, close second' % (len(rm), len(bad)), rm[0].where if rm else f.file, f)


def tracked_state_is_authoritative(F, R):
    """ProcessMonitor::state(): when the in-process tracker knows the path, the answer comes from the tracker on EVERY path - no fall-through to
    the files (opening and closing a second descriptor of a file this process holds a lock on releases that lock)."""
    f = F.fn(PS + 'ProcessMonitor::state')
    gets = [c for c in f.calls(r'BTreeMap::<.*>::get$')]
    opens = f.calls(r'ProcessMonitor::open_file$')
    key = 'NO-PATH::%s::tracker-hit-never-opens-files' % fnkey(f)
    if len(gets) != 1 or not opens:
        R.ob('NO-PATH', key, False, 'anchor-missing: tracker lookup (%d) / file opens (%d)' % (len(gets), len(opens)), f.file, f)
        return
    found = False
    for b in range(len(f.blocks)):
        si = f.switch_info(b)
        if si and 'discr_of' in si:
            p_ = f.prov_place(si['discr_of'])
            if p_.root[0] == 'call' and p_.root[1].key() == gets[0].key() and not [x for x in p_.path if x != '*']:
                for lab, tgt in lib.arm_blocks(f, b, lambda l: l == 'Some', F):
                    found = True
                    pth = f.exists_path(core.Site(f, tgt, -1, ['arm']), opens, [])
                    R.ob('NO-PATH', key, pth is None, 'from the Some(entry) arm of the tracker lookup no file open is reachable%s' % ('' if pth is None else ' -- path %s (a tracked path must be answered from the tracker, whatever its flags)' % pth), gets[0].where, f)
    if not found:
        R.ob('NO-PATH', key, False, 'anchor-missing: no match on the tracker lookup result', gets[0].where, f)


def check(F, R, tier):
    guard_create(F, R)
    state_files(F, R)
    monitor_state(F, R)
    cleaner_new(F, R)
    tracker(F, R)
    unlink_before_close(F, R)
    tracked_state_is_authoritative(F, R)
    stale_cleanup(F, R)


LEVEL_TEXT = ("Decides on all CFG paths of the process-state code: lock-before-publish in guard creation, INIT permissions, context file last, "
              "own-process check before opening the state file, Dead only from the lock state, ownership only for the winner of the owner lock, "
              "cleaner abandoned on every error exit. Necessary conditions of sound verdicts / exclusive cleanup; kernel interleavings are not decided.")
LEVEL_NOTE = "Trusted: rustc MIR; the file-role identification by path provenance (generate_*_path / *_path fields). Not decided: kernel lock behaviour."
TECHNIQUE = "static analysis: MIR dominance, only-under-arm and no-error-after-effect path rules over the process-state protocol"

THOROUGH_UNIVERSES = ['dev_permissions', 'no_std']
