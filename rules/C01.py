"""C01 - pub-sub delivery wiring: connection refresh precedes every send/receive, history is wired to new connections and
inserted on every send, expired connections are drained before active ones."""
import re
from . import core, lib
from .core import sym, sym_nstr
from .lib import dom, pdom, no_path, atomics, sites_of, fnkey, const_arg

EXPLANATION = (
    "Static rules over MIR: DOM (update_connections < deliver_offset / Receiver::receive / has_chunks in every port function that "
    "sends or receives; add_sample_to_history < deliver_offset); PDOM (every successful send passed add_sample_to_history); FLOW "
    "(the closure handed to Sender::update_connection calls deliver_sample_history with the registry entry's history_request; the "
    "establish-new-connection callback is invoked on the create -> Ok arm); ONLY-UNDER (force_update_connections is skipped only "
    "when Container::update_state returned false); DOM (Receiver::receive drains to-be-removed connections first). Decides the "
    "wiring of connection refresh and history replay - a necessary condition of 'receives what was sent while registered' - not "
    "delivery order, at-most-once or byte identity (those are statements over queue contents; FIFO discipline is C03's clause).")
NOT_DECIDED = "delivery order, at-most-once, byte identity, which samples an overflow evicts (statements over histories of queue contents)"

TABLE = [
    # (function id regex, refresh callee regex, guarded callee regex, label)
    (r'^iceoryx2::port::publisher::PublisherSharedState::<.*>::send_sample$', r'::update_connections$', r'Sender::<.*>::deliver_offset$', 'publisher send'),
    (r'^iceoryx2::port::subscriber::Subscriber::<.*>::receive_impl$', r'::update_connections$', r'Receiver::<.*>::receive$', 'subscriber receive'),
    (r'^iceoryx2::port::subscriber::Subscriber::<.*>::has_samples$', r'::update_connections$', r'Receiver::<.*>::has_chunks$', 'subscriber has_samples'),
    (r'^iceoryx2::port::client::ClientSharedState::<.*>::send_request$', r'::update_connections$', r'Sender::<.*>::deliver_offset$', 'client send_request'),
    (r'^iceoryx2::port::server::Server::<.*>::receive_impl$', r'::update_connections$', r'Receiver::<.*>::receive$', 'server receive'),
]


def refresh_before_use(F, R):
    n = 0
    for fpat, ref, use, label in TABLE:
        fs = F.find_fns(fpat)
        if len(fs) != 1:
            R.missing('%s (%s): %d bodies' % (label, fpat, len(fs)))
            continue
        f = fs[0]
        bodies = [f] + F.closures_of(f)
        done = False
        for b in bodies:
            r_, u_ = b.calls(ref), b.calls(use)
            if u_:
                done = True
                n += 1
                dom(R, b, r_, u_, 'update_connections<%s' % use.split('::')[-1].rstrip('$'), '%s: ports connected while registered are known before data moves' % label)
        if not done:
            R.ob('DOM', 'DOM::%s::update_connections<use' % fnkey(f), False, 'anchor-missing: no %s call in %s' % (use, label), f.file, f)
    # has_samples() is the observation point for "receive() would return a sample": it must look at every connection receive() drains,
    # including connections of publishers that already left (to-be-removed connections still hold undelivered samples)
    for f in F.find_fns(r'^iceoryx2::port::subscriber::Subscriber::<.*>::has_samples$'):
        allc = f.calls(r'Receiver::<.*>::has_chunks$')
        act = f.calls(r'Receiver::<.*>::has_chunks_in_active_connection$')
        R.ob('FLOW', 'FLOW::%s::observes-every-connection-receive-drains' % fnkey(f), bool(allc) and not act,
             'has_samples() asks Receiver::has_chunks (%d call(s)) and not has_chunks_in_active_connection (%d call(s)): samples of a publisher that disconnected are still receivable and must be reported' % (len(allc), len(act)),
             (allc + act)[0].where if (allc + act) else f.file, f)
    # response side: ResponseMut::send / PendingResponse::receive refresh inside their shared-state closures
    for fpat, use, label in ((r'^iceoryx2::response_mut::ResponseMut::<.*>::send', r'Sender::<.*>::deliver_offset_to_connection$', 'response send'),
                             (r'^iceoryx2::pending_response::PendingResponse::<.*>::receive_impl', r'Receiver::<.*>::receive$', 'pending response receive')):
        found = False
        for f in F.find_fns(fpat):
            u_ = f.calls(use)
            if u_:
                found = True
                n += 1
                dom(R, f, f.calls(r'::update_connections$'), u_, 'update_connections<%s' % use.split('::')[-1].rstrip('$'), label)
        if not found:
            R.ob('DOM', 'DOM::%s::update_connections<use' % label, False, 'anchor-missing: %s' % label, '')
    R.floor('send/receive functions with connection refresh', n, 7)


def history(F, R):
    fs = F.find_fns(r'^iceoryx2::port::publisher::PublisherSharedState::<.*>::send_sample$')
    if len(fs) != 1:
        R.missing('send_sample')
        return
    f = fs[0]
    ah = f.calls(r'::add_sample_to_history$')
    de = f.calls(r'Sender::<.*>::deliver_offset$')
    dom(R, f, ah, de, 'add_sample_to_history<deliver_offset', 'a subscriber connecting during the send still finds the sample in the history')
    # every path from entry to the delivery passes history insertion exactly once (no branch skips it)
    pth = f.exists_path(None, de, ah, from_entry=True)
    R.ob('PDOM', 'PDOM::%s::history-on-every-send' % fnkey(f), pth is None and bool(ah), 'no path to deliver_offset skips add_sample_to_history', de[0].where if de else f.file, f)
    for d in de:
        R.ob('FLOW', 'FLOW::%s::recipient-count-returned' % fnkey(f), d.dest == [0], 'the number of recipients reported by deliver_offset is the return value (loss is reported, not hidden)', d.where, f)
    # wiring of history replay
    fu = F.find_fns(r'^iceoryx2::port::publisher::PublisherSharedState::<.*>::force_update_connections$')
    if len(fu) != 1:
        R.missing('PublisherSharedState::force_update_connections')
        return
    g = fu[0]
    cls = F.closures_of(g)
    hist_cl = [c for c in cls if c.calls(r'::deliver_sample_history$')]
    upd_cl = [c for c in cls if c.calls(r'Sender::<.*>::update_connection$')]
    R.ob('FLOW', 'FLOW::%s::history-closure-wired' % fnkey(g), len(hist_cl) == 1 and len(upd_cl) == 1, 'the closure handed to Sender::update_connection calls deliver_sample_history', g.file + ':%s' % g.line, g)
    if hist_cl and upd_cl:
        h, u = hist_cl[0], upd_cl[0]
        for c in h.calls(r'::deliver_sample_history$'):
            t = sym_nstr(sym(h, c.args[2]))
            R.ob('FLOW', 'FLOW::%s::history_request-from-registry-entry' % fnkey(h), t.endswith('history_request'), 'deliver_sample_history(connection, %s)' % t, c.where, h)
            R.ob('FLOW', 'FLOW::%s::history-to-the-new-connection' % fnkey(h), lib.param_is(h, c.args[1], 'connection', 2), 'history is replayed into `%s`' % sym_nstr(sym(h, c.args[1])), c.where, h)
        for c in u.calls(r'Sender::<.*>::update_connection$'):
            p = u.prov_operand(c.args[3])
            R.ob('FLOW', 'FLOW::%s::closure-passed-as-establish-callback' % fnkey(u), p.root[0] == 'agg' and h.id in str(p.root[1]), 'third argument of update_connection is the history closure', c.where, u)
            rd = u.prov_operand(c.args[2])
    # Sender::update_connection invokes the callback on create -> Ok
    uc = F.fn('iceoryx2::port::details::sender::Sender::<Service, Resource>::update_connection')
    cr = uc.calls(r'Sender::<.*>::create$')
    cb = lib.param_calls(uc, 'establish_new_connection_call', 4)
    if cr:
        lib.only_under(R, uc, F, cb, cr[0], {'Ok'}, 'establish-callback-on-create-Ok', 'history replay happens exactly when a new connection was established')
    else:
        R.missing('Sender::create call in update_connection')
    # deliver_sample_history: newest min(history_request, buffer) entries, oldest first
    dh = F.find_fns(r'^iceoryx2::port::publisher::PublisherSharedState::<.*>::deliver_sample_history$')
    if len(dh) == 1:
        d = dh[0]
        mins = d.calls(r'::min$')
        R.ob('FLOW', 'FLOW::%s::count=min(history_request,buffer_size)' % fnkey(d), any('history_request' in sym_nstr(sym(d, m.args[0])) + sym_nstr(sym(d, m.args[1])) and 'buffer_size' in sym_nstr(sym(d, m.args[0])) + sym_nstr(sym(d, m.args[1])) for m in mins),
             'delivered history = min(history_request, buffer_size): %s' % [sym_nstr(sym(d, m.args[0])) + ' min ' + sym_nstr(sym(d, m.args[1])) for m in mins], mins[0].where if mins else d.file, d)
        ss = d.calls(r'::saturating_sub$')
        R.ob('FLOW', 'FLOW::%s::start=len-count' % fnkey(d), any('len' in sym_nstr(sym(d, m.args[0])) for m in ss), 'replay starts at history.len() - count (the newest entries, in send order)', ss[0].where if ss else d.file, d)


def skip_refresh_only_if_unchanged(F, R):
    n = 0
    for pat in (r'^iceoryx2::port::publisher::PublisherSharedState::<.*>::update_connections$',
                r'^<iceoryx2::port::subscriber::Subscriber<.*> as iceoryx2::port::update_connections::UpdateConnections>::update_connections$',
                r'^iceoryx2::port::client::ClientSharedState::<.*>::update_connections$',
                r'^iceoryx2::port::server::SharedServerState::<.*>::update_connections$'):
        fs = F.find_fns(pat)
        if len(fs) != 1:
            R.missing('update_connections %s (%d)' % (pat, len(fs)))
            continue
        f = fs[0]
        us = f.calls(r'mpmc::container::Container::<.*>::update_state$')
        fu = f.calls(r'::force_update_connections$')
        key = 'ONLY-UNDER::%s::force-update-iff-registry-changed' % fnkey(f)
        if len(us) != 1 or len(fu) != 1:
            R.ob('ONLY-UNDER', key, False, 'anchor-missing: update_state (%d) / force_update_connections (%d)' % (len(us), len(fu)), f.file, f)
            continue
        n += 1
        ok = False
        for b in range(len(f.blocks)):
            t = f.blocks[b]['t']
            if t[0] == 'switch':
                p = f.prov_operand(t[1])
                if p.root[0] == 'call' and p.root[1].key() == us[0].key():
                    tt, ff = lib.bool_switch_arms(f, b)
                    # force update on the true arm, and unreachable from the false arm
                    ok = f.edge_dominates(b, tt, fu[0].b) and f.exists_path(core.Site(f, tt, -1, ['arm']), f.ret_sites(), fu) is None
        R.ob('ONLY-UNDER', key, ok, 'force_update_connections runs exactly when update_state(..) reported a change (C10 supplies: false => nothing changed)', fu[0].where, f)
        dom(R, f, us, f.ok_exit_sites(), 'update_state<Ok', 'the registry is consulted on every call')
    R.floor('update_connections implementations', n, 4)


def receiver_order(F, R):
    fs = F.find_fns(r'^iceoryx2::port::details::receiver::Receiver::<.*>::receive$')
    if len(fs) != 1:
        R.missing('Receiver::receive')
        return
    f = fs[0]
    tb = f.calls(r'::receive_from_to_be_removed_connections$')
    ac = f.calls(r'::receive_from_connection$')
    dom(R, f, tb, ac, 'expired-connections-drained<active-connections', 'samples of a publisher that reconnected are received before the new connection\'s (send order)')
    for x in tb:
        R.ob('FLOW', 'FLOW::%s::same-channel' % fnkey(f), lib.param_is(f, x.args[1], 'channel_id', 2), 'receive_from_to_be_removed_connections(%s)' % sym_nstr(sym(f, x.args[1])), x.where, f)


def eviction_predicates(F, R):
    """Receiver: which expired connection may be dropped.  The predicates handed to find_connection_with_condition are pure boolean
    functions of (has_data, has_borrows); they are evaluated exhaustively (4 assignments): `without_data_and_borrows` is true only for
    (false, false) - an expired connection with undelivered samples is never evicted by the safe fallback (delivered-or-documented-loss);
    `without_borrows` is true exactly when has_borrows is false."""
    want = {
        'find_connection_without_data_and_borrows': {(False, False): True, (False, True): False, (True, False): False, (True, True): False},
        'find_connection_without_borrows': {(False, False): True, (False, True): False, (True, False): True, (True, True): False},
    }
    n = 0
    for nm, tbl in want.items():
        fs = F.find_fns(r'^iceoryx2::port::details::receiver::Receiver::<.*>::%s$' % nm)
        if len(fs) != 1:
            R.missing('Receiver::%s' % nm)
            continue
        f = fs[0]
        cl = F.closures_of(f, recursive=False)
        key = 'CONST::%s::predicate-truth-table' % fnkey(f)
        if len(cl) != 1:
            R.ob('CONST', key, False, 'anchor-missing: expected one predicate closure, found %d' % len(cl), '%s:%s' % (f.file, f.line), f)
            continue
        t = lib.bool_truth_table(cl[0])
        n += 1
        R.ob('CONST', key, t == tbl, 'predicate(has_data, has_borrows) evaluates to %s ; required %s' % (
            None if t is None else {('%d%d' % k): int(v) for k, v in sorted(t.items())}, {('%d%d' % k): int(v) for k, v in sorted(tbl.items())}), '%s:%s' % (cl[0].file, cl[0].line), f)
    R.floor('eviction predicates evaluated', n, 2)


def check(F, R, tier):
    lib.slot_loops_cover_all_slots(R, F, r'^iceoryx2::port::details::sender::', 3, 'every connected receiver is served / reclaimed')
    # the delivery path runs over the two index queues named in this property's anchors: their publish/consume ordering floors and slot
    # access order (C03's rules) are necessary for "byte identical, at most once" and are evaluated here as well
    from . import C03
    C03.spsc_plain(F, R, C03.IQ, r'IndexQueue::at')
    C03.overflowing(F, R)
    eviction_predicates(F, R)
    lib.flavour_siblings(R, F, r'^iceoryx2::port::subscriber::Subscriber::<.*>::receive$', 'SIBLINGS', 'a sample is handed out under the same conditions for every payload flavour', floor=1)
    refresh_before_use(F, R)
    history(F, R)
    skip_refresh_only_if_unchanged(F, R)
    receiver_order(F, R)


LEVEL_TEXT = ("Decides the wiring of connection refresh and history replay on all CFG paths (refresh before every send/receive, history insertion on "
              "every send, replay into exactly the new connection with the subscriber's requested depth, expired connections first). This is a small, "
              "necessary part of the property; delivery order / exactly-once / byte identity are not decided.")
LEVEL_NOTE = "Trusted: rustc MIR. Decides wiring only, not delivery; the FIFO discipline of the queues is C03's clause."
TECHNIQUE = "static analysis: MIR dominance and closure-flow rules over the port send/receive paths"
