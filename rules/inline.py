"""Virtual inlining of helper functions that did not exist when the rules were written.

An extract-function refactoring moves a block of an anchor function into a new private helper; the behaviour is unchanged but every rule
that looks for a site, an order or a guard *inside the anchor function* would no longer find it.  rules/signatures.json freezes the set of
product function ids the rules were written against; a product function whose id is not in that set is a new helper and is inlined - on
the MIR facts, before any rule runs - into every product caller: parameters become assignments from the call's arguments, `return`
becomes an assignment of the helper's return place to the call's destination followed by a jump to the call's continuation.  Locals and
blocks of the helper are renumbered behind the caller's.  Recursive helpers and helpers with more than MAX_BLOCKS blocks are left alone.
Functions that existed at pin time are never inlined (rules name calls to them)."""
import copy
import re

MAX_BLOCKS = 400
_IDX = re.compile(r'^\[_(\d+)\]$')


def _place(p, lo):
    out = [p[0] + lo]
    for e in p[1:]:
        m = _IDX.match(e) if isinstance(e, str) else None
        out.append('[_%d]' % (int(m.group(1)) + lo) if m else e)
    return out


def _operand(o, lo):
    if isinstance(o, list) and o and o[0] in ('c', 'm'):
        return [o[0], _place(o[1], lo)]
    return o


def _rvalue(r, lo):
    k = r[0]
    if k == 'use':
        return ['use', _operand(r[1], lo)]
    if k == 'repeat':
        return ['repeat', _operand(r[1], lo), r[2]]
    if k == 'ref':
        return ['ref', r[1], _place(r[2], lo)]
    if k == 'rawptr':
        return ['rawptr', r[1], _place(r[2], lo)]
    if k == 'cast':
        return ['cast', r[1], _operand(r[2], lo)] + list(r[3:])
    if k == 'bin':
        return ['bin', r[1], _operand(r[2], lo), _operand(r[3], lo)]
    if k == 'un':
        return ['un', r[1], _operand(r[2], lo)]
    if k == 'discr':
        return ['discr', _place(r[1], lo)] + list(r[2:])
    if k == 'agg':
        return ['agg', r[1], [_operand(o, lo) for o in r[2]]]
    return copy.deepcopy(r)


def _stmt(s, lo):
    k = s[0]
    if k == 'a':
        return ['a', _place(s[1], lo), _rvalue(s[2], lo)] + list(s[3:])
    if k == 'setdiscr':
        return ['setdiscr', _place(s[1], lo)] + list(s[2:])
    if k == 'copy_nonoverlapping':
        return ['copy_nonoverlapping', _operand(s[1], lo), _operand(s[2], lo), _operand(s[3], lo)] + list(s[4:])
    return copy.deepcopy(s)


def _callee(c, lo):
    if isinstance(c, dict):
        c = dict(c)
        if isinstance(c.get('p'), list) and c['p'] and isinstance(c['p'][0], int):
            c['p'] = _place(c['p'], lo)
        elif isinstance(c.get('p'), list) and c['p'] and c['p'][0] in ('c', 'm'):
            c['p'] = _operand(c['p'], lo)
    return c


def _bb(x, bo):
    return None if x is None else x + bo


def _term(t, lo, bo, dest, cont, line):
    """Returns (extra statements, terminator)."""
    k = t[0]
    if k == 'goto':
        return [], ['goto', t[1] + bo]
    if k == 'switch':
        return [], ['switch', _operand(t[1], lo), [[v, b + bo] for v, b in t[2]], t[3] + bo] + list(t[4:])
    if k == 'ret':
        st = [['a', dest, ['use', ['m', [0 + lo]]], t[1] if len(t) > 1 else line]]
        return st, (['goto', cont] if cont is not None else ['unreachable'])
    if k == 'drop':
        return [], ['drop', _place(t[1], lo), t[2] + bo, _bb(t[3], bo)] + list(t[4:])
    if k == 'call':
        return [], ['call', _callee(t[1], lo), [_operand(a, lo) for a in t[2]], _place(t[3], lo), _bb(t[4], bo), _bb(t[5], bo)] + list(t[6:])
    if k == 'tailcall':
        # a tail call returns the callee's result to our caller: model as call + return
        return [], ['call', _callee(t[1], lo), [_operand(a, lo) for a in t[2]], dest, cont, None] + list(t[3:])
    if k == 'assert':
        return [], ['assert', _operand(t[1], lo), t[2], t[3] + bo, _bb(t[4], bo)] + list(t[5:])
    if k == 'yield':
        return [], ['yield', t[1] + bo]
    if k == 'asm':
        return [], ['asm', [b + bo for b in t[1]]]
    return [], copy.deepcopy(t)


def inline_call(caller_j, b, callee_j):
    """Replace the call terminator of block b of caller_j by the body of callee_j."""
    blk = caller_j['blocks'][b]
    t = blk['t']
    args, dest, cont = t[2], t[3], t[4]
    line = t[-1]
    lo = len(caller_j['locals'])
    bo = len(caller_j['blocks'])
    caller_j['locals'] = list(caller_j['locals']) + list(callee_j['locals'])
    for nm, pl in callee_j.get('names', []):
        caller_j['names'].append([nm, _place(pl, lo)])
    for k, a in enumerate(args):
        blk['s'].append(['a', [lo + 1 + k], ['use', a], line])
    blk['t'] = ['goto', bo]
    for cb in callee_j['blocks']:
        sts = [_stmt(s_, lo) for s_ in cb['s']]
        extra, term = _term(cb['t'], lo, bo, dest, cont, line)
        caller_j['blocks'].append({'s': sts + extra, 't': term, 'c': cb.get('c', False)})


def run(facts, pinned_ids, log=None):
    """Inline every product function that is not in pinned_ids into its product callers. Returns the number of inlined call sites."""
    new = {}
    for f in facts.fn_list:
        if f.kind == 'closure' or not f.crate.startswith('iceoryx2') or f.id in pinned_ids:
            continue
        if len(f.blocks) > MAX_BLOCKS:
            continue
        # defined in product source, not a derive / macro expansion of another crate
        new[f.id] = f
    if not new:
        return 0
    # drop self-recursive helpers and order callee-first (bounded fix point)
    def callees(f):
        return {blk['t'][1].get('d') for blk in f.j['blocks'] if blk['t'] and blk['t'][0] in ('call', 'tailcall') and isinstance(blk['t'][1], dict)}
    for fid in [fid for fid, f in new.items() if fid in callees(f)]:
        del new[fid]
    count = 0
    for _round in range(4):
        changed = False
        for f in facts.fn_list:
            if not f.crate.startswith('iceoryx2'):
                continue
            j = f.j
            nb = len(j['blocks'])
            for b in range(nb):
                t = j['blocks'][b]['t']
                if not t or t[0] != 'call' or not isinstance(t[1], dict):
                    continue
                g = new.get(t[1].get('d'))
                if g is None or g is f or len(t[2]) != g.j['nargs']:
                    continue
                if len(j['blocks']) + len(g.j['blocks']) > 4 * MAX_BLOCKS:
                    continue
                inline_call(j, b, g.j)
                count += 1
                changed = True
                if log is not None:
                    log.append((f.id, g.id))
                # closures of the helper now belong to the caller as well
                for c in facts._closures.get(g.id, []):
                    if c not in facts._closures[f.id]:
                        facts._closures[f.id].append(c)
            if len(j['blocks']) != nb:
                f.locals = j['locals']
                f.blocks = j['blocks']
                f._names = f._defs = f._dom = f._pdom = f._sites = f._preds = None
        if not changed:
            break
    return count
