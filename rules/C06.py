"""C06 - service creation atomicity / lifetime: creation protocol order, ownership released only after the last fallible step,
resources acquired for removal only under NoMoreOwners, node registry always LockIfLastIndex, same-field comparisons and field
coverage in the 4 verify_service_configuration functions."""
import re
from . import core, lib
from .core import sym, sym_nstr
from .lib import dom, pdom, no_path, atomics, sites_of, fnkey, const_arg
from .C04 import closure_param_calls

EXPLANATION = (
    "Static rules over MIR: NO-ERR-AFTER (once any ownership has been released in Builder::create/open no error exit is reachable: "
    "a failed creation must not leave persistent garbage that blocks the name); DOM (creator registers its node inside the "
    "initializer of the dynamic config; open registers through registered_services().add_or after opening); ONLY-UNDER (the three "
    "acquire_ownership calls of ServiceState::drop lie under Ok(NoMoreOwners), remove_service_tag precedes deregister_node_id; "
    "open succeeds only under open_dynamic_config_storage == Ok, DoesNotExist/InitializationNotYetFinalized lead to wait+retry); "
    "CONST-ARG (nodes container: LockIfLastIndex; port containers: Default); SIBLINGS over the 4 verify_service_configuration: "
    "every relational comparison has the same field on both sides with `existing` left of `<`, and every numeric/bool field of "
    "the pattern's StaticConfig is compared or listed as an exception. 'At most one creation succeeds' is the kernel's O_EXCL and "
    "is not decided.")
NOT_DECIDED = "mutual exclusion of concurrent creators (kernel O_EXCL), termination, behaviour under interleavings"

B = 'iceoryx2::service::builder::BuilderWithServiceType::<ServiceType>::'

# fields of the pattern StaticConfigs that are deliberately not compared by a relational test in verify_service_configuration
FIELD_EXCEPTIONS = {
    'publish_subscribe': {
        'message_type_details': 'compared by the dedicated type-detail helper (is_compatible_to) in open_impl',
        'subscriber_max_borrowed_samples': None,
    },
    'event': {
        'deadline': 'compared through RelocatableOption::map (PartialEq::ne call, checked as a call comparison)',
        'notifier_created_event': 'compared with PartialEq::ne (call comparison)',
        'notifier_dropped_event': 'compared with PartialEq::ne (call comparison)',
        'notifier_dead_event': 'compared with PartialEq::ne (call comparison)',
    },
    'request_response': {
        'request_message_type_details': 'compared by the dedicated type-detail helper',
        'response_message_type_details': 'compared by the dedicated type-detail helper',
        'max_loaned_responses_per_request': None,
    },
    'blackboard': {
        'type_details': 'compared by the dedicated key-type helper',
        'max_writers': 'constant 1 (C12)',
    },
}


def last_field(s):
    m = re.findall(r'\.([a-z_][a-z_0-9]*)(?![\w(:])', s)
    return m[-1] if m else None


def verify_cfg(F, R):
    fns = F.find_fns(r'^iceoryx2::service::builder::(\w+)::\w+::<.*>::verify_service_configuration$')
    R.floor('verify_service_configuration siblings', len(fns), 4)
    for f in fns:
        pat = re.search(r'builder::(\w+)::', f.id).group(1)
        compared = set()
        ncmp = 0
        # every refusal (error exit) is judged by the condition under which it is reached, normalised (polarity of the branch applied, so
        # `if e < r { fail }`, `if r > e { fail }` and `if e >= r { return Ok } fail` are the same refusal) and oriented existing-vs-required
        # by provenance: the existing side derives from the parameter that carries the stored StaticConfig, the required side from self
        ex = r'\$%d\b' % lib.param_index_ty(f, 'existing_service_config', 3, r'static_config::StaticConfig$')
        for e in f.err_exit_sites():
            for c in lib.path_conds(f, e, F):
                sp = lib._split_top(lib.canon(f, c))
                if not sp:
                    continue
                a, op, b = sp
                if not (re.search(ex, a) or re.search(ex, b)):
                    continue
                if re.search(ex, b) and not re.search(ex, a):
                    a, op, b = b, lib._FLIP[op], a
                ncmp += 1
                fa, fb = last_field(a), last_field(b)
                key = 'SIBLINGS::%s::same-field::%s' % (fnkey(f), fa or fb)
                ok = fa is not None and fa == fb and not re.search(ex, b) and 'self' in b
                R.ob('SIBLINGS', key, ok, 'refusal under `%s %s %s`: both sides must read the same field, one of the existing service, one of the requirement' % (a[:90], op, b[:90]), e.where, f)
                if fa:
                    compared.add(fa)
                R.ob('SIBLINGS', 'SIBLINGS::%s::comparison-direction::%s' % (fnkey(f), fa), op in ('<', '!='), 'the open is refused when `existing %s required`; allowed: `<` (the service offers less than required; equal suffices) or `!=` (settings that must match)' % op, e.where, f)
                break    # nearest guard only
        R.ob('SIBLINGS', 'SIBLINGS::%s::has-comparisons' % fnkey(f), ncmp >= 2, '%d field comparisons found' % ncmp, '%s:%s' % (f.file, f.line), f)
        sc = F.adts.get('iceoryx2::service::static_config::%s::StaticConfig' % pat)
        if sc is None:
            R.missing('static_config::%s::StaticConfig' % pat)
            continue
        for fld in sc['variants'][0]['fields']:
            nm = fld['name']
            if nm in compared:
                continue
            exc = FIELD_EXCEPTIONS.get(pat, {}).get(nm, 'MISSING')
            if exc is None:
                exc = 'MISSING'
            R.ob('COVERAGE', 'COVERAGE::%s::field-compared::%s' % (fnkey(f), nm), exc != 'MISSING',
                 'StaticConfig.%s (%s) is %s' % (nm, fld['ty_s'], ('not compared with the opener\'s requirement' if exc == 'MISSING' else 'exempt: ' + exc)), '%s:%s' % (f.file, f.line), f)


def no_err_after_release(F, R):
    for name in ('create', 'open'):
        f = F.fn(B + name)
        rel = f.calls(r'::release_ownership$') + closure_param_calls(f, 'release_service_resource_ownership')
        key = 'NO-ERR-AFTER::%s::release_ownership' % fnkey(f)
        if not rel:
            R.ob('NO-ERR-AFTER', key, False, 'anchor-missing: no release_ownership call', f.file, f)
            continue
        errs = f.err_exit_sites()
        for r in rel:
            pth = f.exists_path(r, errs, [])
            R.ob('NO-ERR-AFTER', key, pth is None, 'after %s no error exit is reachable (a failed %s must remove what it created)%s' % (lib.desc(r), name, '' if pth is None else ' -- path %s' % pth), r.where, f)
        R.ob('FLOOR', 'floor::%s::release sites' % fnkey(f), len(rel) >= (4 if name == 'create' else 1), '%d release sites' % len(rel), f.file, f)
        # all releases happen after the last fallible step (registry add / dynamic config open)
        last = f.calls(r'RegisteredServices::add$') if name == 'create' else f.calls(r'::open_dynamic_config_storage$')
        dom(R, f, last, rel, 'last-fallible-step<release_ownership', 'ownership is given up only when nothing can fail any more')


def creation_registration(F, R):
    f = F.fn(B + 'create_dynamic_config_storage_resource')
    cl = [c for c in F.closures_of(f) if c.calls(r'DynamicConfig::register_node_id$')]
    R.ob('DOM', 'DOM::%s::creator-registers-inside-initializer' % fnkey(f), len(cl) == 1, 'register_node_id is called inside the initializer closure (no opener can observe an initialised registry without an owner)', cl[0].file + ':%s' % cl[0].line if cl else f.file, f)
    if cl:
        c = cl[0]
        init = c.calls(r'::config_init_call$')
        reg = c.calls(r'DynamicConfig::register_node_id$')
        dom(R, c, init, reg, 'config_init_call<register_node_id', 'registry initialised before use')
        # the closure is passed to .initializer(..) of the builder, and has_ownership(false) is set
        ini = f.calls(r'DynamicStorageBuilder.*::initializer$')
        R.ob('FLOW', 'FLOW::%s::closure-is-the-initializer' % fnkey(f), len(ini) == 1 and any(c.id in str(f.prov_operand(a).root) or (f.prov_operand(a).root[0] == 'agg' and c.id in str(f.prov_operand(a).root[1])) for a in ini[0].args[1:]) if ini else False,
             'the registering closure is the argument of .initializer(..)', ini[0].where if ini else f.file, f)
    o = F.fn(B + 'open_dynamic_config_storage')
    opn = o.calls(r'DynamicStorageBuilder.*::open$')
    addor = o.calls(r'RegisteredServices::add_or$')
    dom(R, o, opn, addor, 'open<register(add_or)', 'the opener registers its node after opening')
    dom(R, o, addor, o.ok_exit_sites(), 'register<Ok(storage)', 'a successfully opened service always counts its user')
    ocl = [c for c in F.closures_of(o) if c.calls(r'DynamicConfig::register_node_id$')]
    for c in ocl:
        reg = c.calls(r'DynamicConfig::register_node_id$')
        errs = lib.agg_sites(c, r'OpenDynamicStorageFailure$', 'IsMarkedForDestruction')
        if reg:
            lib.only_under(R, c, F, errs, reg[0], {'Err'}, 'MarkedForDestruction->IsMarkedForDestruction', 'late openers are refused')
    R.floor('open_dynamic_config_storage register closures', len(ocl), 1)
    # Builder::open: success only under open_dynamic_config_storage Ok; DoesNotExist/NotYetFinalized arm waits
    op = F.fn(B + 'open')
    ods = op.calls(r'::open_dynamic_config_storage$')
    oks = op.ok_exit_sites()
    if ods:
        lib.only_under(R, op, F, oks, ods[0], {'Ok'}, 'Ok-only-under-dynamic-config-opened', 'nobody obtains a half-initialised service')
    waits = [s for s in op.sites if s.is_call and re.search(r'open::\{closure#\d+\}$', s.callee or '')]
    R.ob('FLOOR', 'floor::%s::wait() call sites' % fnkey(op), len(waits) >= 2, '%d wait() calls (HangsInCreation arm, dynamic config not ready arm)' % len(waits), op.file, op)
    open_retry_is_bounded(F, R)


def open_retry_is_bounded(F, R):
    """Builder::open: the retry loop is bounded.  wait() is the only place that compares the elapsed time with the creation timeout, so
    every way back to the next attempt passes it.  A retry that skips it spins for ever when the creator died mid-initialisation: the
    surviving process hangs in open() / open_or_create() (C04) instead of getting HangsInCreation."""
    op = F.fn(B + 'open')
    waits = [s for s in op.sites if s.is_call and re.search(r'open::\{closure#\d+\}$', s.callee or '')]
    probe = closure_param_calls(op, 'is_service_available')
    key = 'LOOP::%s::every-retry-passes-the-deadline-check' % fnkey(op)
    if probe and waits:
        pth = op.exists_path(probe[0], [probe[0]], waits)
        R.ob('LOOP', key, pth is None, 'every cycle of the open() retry loop passes wait() (timeout check)%s' % ('' if pth is None else ' -- a retry without it: blocks %s' % pth), probe[0].where, op)
    else:
        R.ob('LOOP', key, False, 'anchor-missing: is_service_available probe (%d) / wait() (%d)' % (len(probe), len(waits)), op.file, op)


def drop_rules(F, R):
    ds = F.find_fns(r'^<iceoryx2::service::ServiceState<.*> as core::ops::drop::Drop>::drop$')
    if len(ds) != 1:
        R.missing('Drop for ServiceState')
        return
    d = ds[0]
    # the last-handle body: the closure handed to registered_services().remove() or a private helper of ServiceState it delegates to
    cl = [c for c in lib.family(F, d) if c.calls(r'DynamicConfig::deregister_node_id$')]
    if len(cl) != 1:
        R.missing('ServiceState::drop closure with deregister_node_id')
        return
    c = cl[0]
    dereg = c.calls(r'DynamicConfig::deregister_node_id$')
    acq = c.calls(r'::acquire_ownership$')
    R.ob('FLOOR', 'floor::%s::acquire_ownership sites' % fnkey(c), len(acq) == 3, '%d acquire_ownership calls (static storage, dynamic storage, additional resource)' % len(acq), c.file, c)
    # match on the result: arm Ok(NoMoreOwners)
    ok = True
    sw_ok = lib.switches_on_result_of(c, dereg[0])
    under = []
    for a in acq:
        good = False
        for b in range(len(c.blocks)):
            si = c.switch_info(b)
            if si and si.get('enum_ty') and si['enum_ty'].endswith('DeregisterNodeState'):
                p = c.prov_place(si['discr_of'])
                if p.root[0] == 'call' and p.root[1].key() == dereg[0].key() and 'as:Ok' in p.path:
                    for lab, tgt in lib.arm_blocks(c, b, lambda l: l == 'NoMoreOwners', F):
                        if c.edge_dominates(b, tgt, a.b):
                            good = True
        R.ob('ONLY-UNDER', 'ONLY-UNDER::%s::acquire_ownership-under-NoMoreOwners' % fnkey(c), good, '%s lies under Ok(DeregisterNodeState::NoMoreOwners): resources disappear exactly when the last user is gone' % lib.desc(a), a.where, c)
    rst = c.calls(r'stale_resource_cleanup::remove_service_tag$')
    dom(R, c, rst, dereg, 'remove_service_tag<deregister_node_id', 'the node\'s tag is gone before the node stops counting as a user')
    # deregister: nodes.remove(handle, LockIfLastIndex)
    dn = F.fn('iceoryx2::service::dynamic_config::DynamicConfig::deregister_node_id')
    for r in dn.calls(r'mpmc::container::Container::<.*>::remove$'):
        const_arg(R, dn, r, 2, {'LockIfLastIndex'}, 'nodes-remove-mode', 'locking the node registry marks the service for destruction; late openers get IsMarkedForDestruction')
        R.ob('FLOW', 'FLOW::%s::on-nodes' % fnkey(dn), dn.chain(r.args[0]) == 'self.nodes', 'removes from %s' % dn.chain(r.args[0]), r.where, dn)
    n = 0
    for f in F.find_fns(r'^iceoryx2::service::dynamic_config::\w+::DynamicConfig::release_\w+_handle$'):
        for r in f.calls(r'mpmc::container::Container::<.*>::remove$'):
            n += 1
            const_arg(R, f, r, 2, {'Default'}, 'port-remove-mode', 'a locked port registry would refuse ports for ever')
    R.floor('port release handles', n, 8)
    rn = F.fn('iceoryx2::service::dynamic_config::DynamicConfig::register_node_id')
    adds = rn.calls(r'mpmc::container::Container::<.*>::add$')
    R.ob('FLOW', 'FLOW::%s::on-nodes' % fnkey(rn), len(adds) == 1 and rn.chain(adds[0].args[0]) == 'self.nodes', 'register_node_id adds to self.nodes', adds[0].where if adds else rn.file, rn)


def decision_classes(F, enum_id):
    """Variant -> arm target block of the match on `enum_id` in BuilderWithServiceType::open_or_create (the retry / return decision)."""
    out = {}
    for f in F.find_fns(r'^iceoryx2::service::builder::BuilderWithServiceType::<.*>::open_or_create$'):
        for g in [f] + F.closures_of(f):
            for b in range(len(g.blocks)):
                si = g.switch_info(b)
                if si and si.get('enum_ty') and si['enum_ty'].startswith(enum_id):
                    for lab, tgt in lib.arm_blocks(g, b, lambda l: True, F):
                        out[lab] = '%s#bb%d' % (g.name, tgt)
    return out


def error_conversions(F, R):
    """The error enums of the service builders are converted into one another (`impl From<XOpenError> for ServiceOpenError` and back, Create,
    OpenOrCreate ...).  The generic open/create/open_or_create protocol DECIDES on the converted value (retry on IsMarkedForDestruction,
    give up otherwise): a source variant whose name also exists in the target enum is converted to exactly that variant."""
    n = 0
    for f in F.fn_list:
        if f.crate != 'iceoryx2' or f.kind == 'closure':
            continue
        m = re.match(r'^<(iceoryx2::service::builder::[\w:]+) as core::convert::From<(iceoryx2::service::builder::[\w:]+)>>::from$', f.id) or \
            re.match(r'^iceoryx2::service::builder::\w+::<impl core::convert::From<(?P<src>iceoryx2::service::builder::[\w:]+)> for (?P<dst>iceoryx2::service::builder::[\w:]+)>::from$', f.id)
        if not m:
            continue
        dst, src = (m.group('dst'), m.group('src')) if 'dst' in m.groupdict() else (m.group(1), m.group(2))
        da, sa = F.adts.get(dst), F.adts.get(src)
        if not da or not sa or da['kind'] != 'enum' or sa['kind'] != 'enum':
            continue
        dvars = set(v['name'] for v in da['variants'])
        # conversions INTO the generic enums (ServiceOpenError / ServiceCreateError) are only used by the generic protocol to decide between
        # retry / do-not-create / return: what must be preserved is the decision class of a variant (the arm of the protocol's match it falls
        # into), not its name.  Conversions into a pattern's error enum produce the value the user sees: the name is preserved exactly.
        cls = decision_classes(F, dst) if dst in ('iceoryx2::service::builder::ServiceOpenError', 'iceoryx2::service::builder::ServiceCreateError') else None
        bad, total = [], 0
        for b in range(len(f.blocks)):
            si = f.switch_info(b)
            if not si or not si.get('enum_ty') or not si['enum_ty'].startswith(src):
                continue
            for lab, tgt in lib.arm_blocks(f, b, lambda l: True, F):
                if lab not in dvars:
                    continue
                total += 1
                names = sorted(set(a.node[2][1][2] for a in lib.agg_sites(f, '^' + re.escape(dst) + '$') if f.edge_dominates(b, tgt, a.b)))
                if cls is not None:
                    if len(names) != 1 or cls.get(names[0]) != cls.get(lab) or cls.get(lab) is None:
                        bad.append('%s -> %s (decision class %s -> %s)' % (lab, '|'.join(names) or '?', cls.get(lab), [cls.get(x) for x in names]))
                elif names != [lab]:
                    bad.append('%s -> %s' % (lab, '|'.join(names) or '?'))
        if total:
            n += 1
            R.ob('MATCH-MAP', 'MATCH-MAP::%s::from::%s::same-named-variants-map-to-themselves' % (core.short(dst), core.short(src)), not bad, '%d variant name(s) shared by %s and %s%s' % (total, core.short(src), core.short(dst), (' all map to themselves' if cls is None else ' all stay in their decision class of open_or_create') if not bad else '; deviating: ' + ', '.join(bad)), '%s:%s' % (f.file, f.line), f)
    R.floor('error conversions between builder error enums with shared variant names', n, 18)


def openers_do_not_own(F, R):
    """Opening an EXISTING static storage of a service (static config, node details, type definition) must not make the opener its owner while
    the open can still fail: a storage that is dropped with ownership removes the file.  Either the builder chain says has_ownership(false)
    or no error exit is reachable on the Ok arm of open() before release_ownership() ('an incompatible open leaves the service untouched')."""
    n = 0
    for s_ in F.callers_of(r'static_storage::StaticStorageBuilder::open$'):
        f = s_.fn
        if f.crate != 'iceoryx2' or f.id.startswith('iceoryx2::testing'):
            continue
        n += 1
        chain = sym_nstr(sym(f, s_.args[0]))
        m_ = re.search(r'has_ownership\((?:.*), (\w+)\)', chain)
        disowned = bool(m_) and m_.group(1) in ('0', 'false')
        rel = f.calls(r'::release_ownership$')
        bad = []
        if not disowned:
            for b in lib.switches_on_result_of(f, s_, lib.TRY_BRANCH):
                for lab, tgt in lib.arm_blocks(f, b, lambda l: l in ('Ok', 'Continue'), F):
                    for e in f.err_exit_sites():
                        if f.edge_dominates(b, tgt, e.b) and f.exists_path(core.Site(f, tgt, -1, ['arm']), [e], rel) is not None:
                            bad.append(e)
        R.ob('NO-ERR-AFTER', 'NO-ERR-AFTER::%s::opened-storage-not-owned-while-open-can-fail' % fnkey(f), disowned or not bad,
             'open(%s): %s' % (chain[:70], 'has_ownership(false)' if disowned else ('%d error exit(s) are reachable after the storage was opened WITH ownership and before release_ownership(): dropping it there removes the live service\'s file (lines %s)' % (len(bad), sorted(set(e.line for e in bad))[:6]) if bad else 'owned, but no error exit before release_ownership()')), s_.where, f)
    R.floor('static storage open sites in iceoryx2', n, 5)


def check(F, R, tier):
    no_err_after_release(F, R)
    creation_registration(F, R)
    drop_rules(F, R)
    verify_cfg(F, R)
    error_conversions(F, R)
    openers_do_not_own(F, R)
    # open(): the one step that can still fail (open_service_resource) precedes the node registration (C04's chain, also a C06 clause:
    # 'a failed open leaves the service untouched')
    from . import C04 as _C04
    _C04.builder(F, R)
    # the 'being created' lock of the static config / dynamic config storages (permission bits): same rules as C04.storages
    from . import C04
    C04.storages(F, R)


LEVEL_TEXT = ("Decides on all CFG paths: ownership is released only after the last fallible step of create/open (no error exit afterwards), "
              "the storages' init-permission discipline (created with INIT permissions, content written / initialised before the final permission), node registration placement, removal of resources only under NoMoreOwners, LockIfLastIndex on the node registry, and - over the "
              "four verify_service_configuration siblings - same-field comparisons and coverage of every StaticConfig field. "
              "Mutual exclusion of creators is the kernel's and is not decided.")
LEVEL_NOTE = "Trusted: rustc MIR; FIELD_EXCEPTIONS table (one reason per row). Not decided: interleavings of create/open/drop."
TECHNIQUE = "static analysis: no-error-after-effect path rule, only-under-arm rules, constant-argument rules, sibling comparison cross-check with field coverage"

THOROUGH_UNIVERSES = ['dev_permissions', 'no_std']
