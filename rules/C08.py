"""C08 - QoS limits: sizing polynomials dominate the documented worst case, limit checks dominate the first side effect,
no error exit after an effect without its undo, limit errors map to their documented variant."""
import re
from . import core, lib
from .core import sym, sym_nstr, sym_norm, sym_place, poly, poly_ge, poly_str, NotPoly
from .lib import dom, pdom, no_path, atomics, sites_of, fnkey, const_arg, check_before_effects, agg_sites

EXPLANATION = (
    "Static rules: POLY (abstract interpretation of the straight-line sizing functions in the domain of polynomials with natural "
    "coefficients; the result must dominate the reference polynomial coefficient-wise, so larger buffers never alarm); FLOW (the "
    "formula's result reaches the data segment and the sender's chunk count); DOM check < effect (loan limit, borrow limit, "
    "full-buffer test, active-request limit, subscriber QoS checks) with the comparison normalised and required non-strict where "
    "the counter counts held units; NO-ERR-AFTER (no error exit after a counter increment / channel open without its undo); "
    "CONST (the refusal guarded by check k constructs the documented variant k). That the closed formula covers the worst "
    "reachable distribution is a statement over histories and is not decided.")
NOT_DECIDED = "sufficiency of the closed formulas over all reachable histories; 'succeeds again as soon as capacity is freed' as behaviour"

SC = 'iceoryx2::service::static_config::'


def poly_rule(R, F, fid, ref, why):
    f = F.fn(fid)
    key = 'POLY::%s' % fnkey(f)
    try:
        p = poly(sym_place(f, [0]))
        R.ob('POLY', key, poly_ge(p, ref), '%s = %s ; reference %s (%s)' % (f.name, poly_str(p), poly_str(ref), why), '%s:%s' % (f.file, f.line), f)
    except NotPoly as e:
        R.ob('POLY', key, False, 'not analysable (branches / subtraction / division are outside the domain): %s' % e, '%s:%s' % (f.file, f.line), f)


def mono(*syms):
    return tuple(sorted(syms))


def formulas(F, R):
    S = 'self.'
    poly_rule(R, F, SC + 'publish_subscribe::StaticConfig::required_amount_of_samples_per_data_segment', {
        mono(S + 'max_subscribers', S + 'subscriber_max_buffer_size'): 1,
        mono(S + 'max_subscribers', S + 'subscriber_max_borrowed_samples'): 1,
        mono(S + 'history_size'): 1,
        mono('publisher_max_loaned_data'): 1,
    }, 'subscribers*(buffer+borrow)+history+loans')
    poly_rule(R, F, SC + 'request_response::StaticConfig::required_amount_of_chunks_per_client_data_segment', {
        mono(S + 'max_servers', 'client_max_active_requests'): 2,
        mono('client_max_loaned_data'): 1,
    }, 'servers*2*active_requests+loans')
    poly_rule(R, F, SC + 'request_response::StaticConfig::required_amount_of_chunks_per_server_data_segment', {
        mono(S + 'max_clients', S + 'max_active_requests_per_client', S + 'max_response_buffer_size'): 2,
        mono(S + 'max_clients', S + 'max_active_requests_per_client', S + 'max_borrowed_responses_per_pending_response'): 2,
        mono(S + 'max_clients', S + 'max_active_requests_per_client', 'max_loaned_responses_per_request'): 2,
    }, 'clients*2*active_requests*(buffer+borrow+loans)')
    segment_size(F, R)


def segment_size(F, R):
    # static segment size >= size*n + align - 1  (checked as size*n + align >= ... + 1 in N-polynomials: the term is size*n + (align - 1))
    cs = F.find_fns(r'^iceoryx2::port::details::data_segment::DataSegment::<.*>::create_static_segment$')
    if len(cs) != 1:
        R.missing('DataSegment::create_static_segment')
    else:
        f = cs[0]
        sz = f.calls(r'SharedMemoryBuilder.*::size$')
        key = 'POLY::%s::segment-size' % fnkey(f)
        if len(sz) != 1:
            R.ob('POLY', key, False, 'anchor-missing: .size(..) of the shared memory builder', f.file, f)
        else:
            t = sym_norm(sym(f, sz[0].args[1]))
            s_ = sym_nstr(t)
            # shape: ((size(layout) * number_of_chunks) + align(layout)) - 1
            ok = False
            if t[0] == '-' and t[2] == ('c', 1):
                try:
                    p = poly(t[1])
                    sizes = [m for m in p if any('size' in x for x in m) and 'number_of_chunks' in m]
                    aligns = [m for m in p if len(m) == 1 and 'align' in m[0]]
                    ok = bool(sizes) and bool(aligns)
                except NotPoly:
                    ok = False
            R.ob('POLY', key, ok, 'segment size = %s ; required >= size*number_of_chunks + align - 1 (worst-case start alignment)' % s_, sz[0].where, f)

def sizing_argument_roles(F, R):
    """The sizing functions take several usize quantities; at every call site each argument is the quantity the parameter stands for
    (a loan limit for the loaned-data parameter, an active-request limit for the active-requests parameter): two swapped usize
    arguments type-check and size the segment for the wrong worst case."""
    ROLE = {
        'required_amount_of_chunks_per_client_data_segment': [('loan', r'max_loaned'), ('active requests', r'max_active_requests')],
        'required_amount_of_chunks_per_server_data_segment': [('loan', r'max_loaned')],
        'required_amount_of_samples_per_data_segment': [('loan', r'max_loaned')],
    }
    n = 0
    ordinal = {}
    for s_ in F.callers_of(r'StaticConfig::(required_amount_of_chunks_per_(client|server)_data_segment|required_amount_of_samples_per_data_segment)$'):
        if not s_.fn.id.startswith('iceoryx2::port::'):
            continue
        nm = s_.callee.rsplit('::', 1)[-1]
        f = s_.fn
        k0 = (f.id, nm)
        ordinal[k0] = ordinal.get(k0, -1) + 1
        nm_k = '%s#%d' % (nm, ordinal[k0])
        for i, (role, pat) in enumerate(ROLE[nm]):
            t = sym_nstr(sym(f, s_.args[1 + i]))
            others = [p_ for j, (_, p_) in enumerate(ROLE[nm]) if j != i]
            ok = re.search(pat, t) is not None and not any(re.search(o, t) for o in others)
            n += 1
            R.ob('FLOW', 'FLOW::%s::%s::argument-%d-is-the-%s-limit' % (fnkey(f), nm_k, i + 1, role.replace(' ', '-')), ok, '%s(.., arg%d = %s): the parameter is the %s limit' % (nm, i + 1, t[:100], role), s_.where, f)
    R.floor('sizing-function arguments checked for their role', n, 8)


def queue_capacity_roles(F, R):
    """zero copy connection: the two queue capacities (submission = buffer size, completion = buffer + max borrows + 1) travel as two
    plain usize values through const_memory_size / init / Channel::new.  At every hop the value that sizes the submission queue is the
    submission capacity and the one that sizes the completion queue is the completion capacity: swapped, everything type-checks and the
    receiver cannot return every borrowed sample (completion queue too small) while memory is wasted on the other queue."""
    ZC = 'iceoryx2_cal::zero_copy_connection::common::details::'
    n = 0
    # 1. the builder hands submission_queue_size() / completion_queue_size() to the parameters of that name
    b = F.find_fns(r'^' + re.escape(ZC) + r'Builder::<.*>::create_or_open_shm$')
    for g in (lib.family(F, b[0]) if b else []):
        for c in g.calls(r'SharedManagementData::(init|const_memory_size)$'):
            base = 2 if c.callee.endswith('::init') else 0
            for k, role in ((base, 'submission'), (base + 1, 'completion')):
                n += 1
                ok = lib.has_origin(g, c.args[k], r'::%s_queue_size$' % role) and not lib.has_origin(g, c.args[k], r'::%s_queue_size$' % ('completion' if role == 'submission' else 'submission'))
                R.ob('FLOW', 'FLOW::%s::%s::%s-capacity-argument' % (fnkey(g), c.callee.rsplit('::', 1)[-1], role), ok, 'the %s capacity parameter of %s receives %s' % (role, core.short(c.callee), sym_nstr(sym(g, c.args[k]))[:80]), c.where, g)
    # 2. init forwards its two parameters to Channel::new in the same roles
    ini = F.fn_opt(ZC + 'SharedManagementData::init')
    if ini is None:
        R.missing('SharedManagementData::init')
    else:
        for c in ini.calls(r'details::Channel::new$'):
            for k, (nm, pos) in enumerate((('submission_queue_capacity', 3), ('completion_queue_capacity', 4))):
                n += 1
                R.ob('FLOW', 'FLOW::%s::Channel::new::%s' % (fnkey(ini), nm), lib.param_is(ini, c.args[k], nm, pos), 'Channel::new argument %d is %s' % (k + 1, sym_nstr(sym(ini, c.args[k]))[:60]), c.where, ini)
    # 3. Channel::new sizes each queue with the parameter of its role
    ch = F.fn_opt(ZC + 'Channel::new')
    if ch is None:
        R.missing('Channel::new')
    else:
        for a in lib.agg_sites(ch, r'details::Channel$'):
            names = a.node[2][1][3]
            for fld, (nm, pos) in (('submission_queue', ('submission_queue_capacity', 1)), ('completion_queue', ('completion_queue_capacity', 2))):
                if fld in names:
                    n += 1
                    o = lib.origins(ch, a.node[2][2][names.index(fld)])
                    want = 'arg:%d' % lib.param_index(ch, nm, pos)
                    args = sorted(x for x in o if x.startswith('arg:'))
                    R.ob('FLOW', 'FLOW::%s::%s-sized-by-its-capacity' % (fnkey(ch), fld), args == [want], 'Channel.%s is built from parameter(s) %s; required %s (%s)' % (fld, args, want, nm), a.where, ch)
    R.floor('queue capacity hand-overs', n, 8)


def formula_source(f, operand):
    """Alternatives of the chunk count: through the documented preallocate-override hook and through match phis."""
    t = sym(f, operand)
    if t[0] == 'call' and re.search(r'Preallocated\w+Override::call$', core.strip_generics(t[1])) and len(t[2]) == 2:
        t = t[2][1]
    return [sym_nstr(x) for x in core.phi_alternatives(f, t)]


def formula_flow(F, R):
    """The formula result reaches both the data segment and the sender's number_of_chunks."""
    for port, formula, sender_field in (
            ('publisher::Publisher', 'required_amount_of_samples_per_data_segment', 'number_of_chunks'),
            ('client::Client', 'required_amount_of_chunks_per_client_data_segment', 'number_of_chunks'),
            ('server::Server', 'required_amount_of_chunks_per_server_data_segment', 'number_of_chunks')):
        fs = [s.fn for s in F.callers_of(r'StaticConfig::' + formula + '$') if s.fn.id.startswith('iceoryx2::port::' + port)]
        fs = list({f.id: f for f in fs}.values())
        if len(fs) != 1:
            R.missing('%s constructor using %s' % (port, formula))
            continue
        f = fs[0]
        segs = f.calls(r'DataSegment::<.*>::create_(static|dynamic)_segment$')
        for c in segs:
            t = formula_source(f, c.args[3])
            R.ob('FLOW', 'FLOW::%s::segment-sized-by-formula' % fnkey(f), all(formula in x for x in t) and bool(t), '%s(.., number_of_chunks = %s)' % (core.short(c.callee), ' | '.join(x[:120] for x in t)), c.where, f)
        R.floor('%s data segment creations' % port, len(segs), 2)
        snd = [a for a in agg_sites(f, r'port::details::sender::Sender$')]
        for a in snd:
            names = a.node[2][1][3]
            if sender_field in names:
                t = formula_source(f, a.node[2][2][names.index(sender_field)])
                R.ob('FLOW', 'FLOW::%s::sender-chunk-count-by-formula' % fnkey(f), all(formula in x for x in t) and bool(t), 'Sender.%s = %s' % (sender_field, ' | '.join(x[:120] for x in t)), a.where, f)
        R.floor('%s Sender aggregates' % port, len(snd), 1)


def limits(F, R):
    # ---- loan limit
    S = 'iceoryx2::port::details::sender::Sender::<Service, Resource>::'
    al = F.fn(S + 'allocate')
    errs = agg_sites(al, r'LoanError$', 'ExceedsMaxLoans')
    eff = al.calls(r'DataSegment::<.*>::allocate$') + sites_of(atomics(al, r'loan_counter$', 'fetch_add'))
    rc = check_before_effects(R, al, errs, eff, 'loan-limit<allocate', 'a refused loan has no side effect')
    if rc:
        l, rel, r, g = rc
        ok = ('loan_counter' in l and rel == '>=' and 'sender_max_borrowed_chunks' in r) or ('loan_counter' in r and rel == '<=' and 'sender_max_borrowed_chunks' in l)
        R.ob('CMP', 'CMP::%s::loan-limit-shape' % fnkey(al), ok, 'refusal condition `%s %s %s`; required loan_counter >= max (the counter counts loans already held)' % (l, rel, r), g.where, al)
    fa = sites_of(atomics(al, r'loan_counter$', 'fetch_add'))
    for s in fa:
        pth = al.exists_path(s, al.err_exit_sites(), [])
        R.ob('NO-ERR-AFTER', 'NO-ERR-AFTER::%s::loan_counter' % fnkey(al), pth is None, 'no error exit after the loan counter was incremented', s.where, al)
    dom(R, al, al.calls(r'Sender::<.*>::borrow_chunk$'), fa, 'borrow_chunk<loan_counter++', 'the loan is counted only once the chunk is tracked')
    # ---- borrow limit (receiver)
    ZC = 'iceoryx2_cal::zero_copy_connection::common::details::'
    rcvs = F.find_fns(r'^<' + re.escape(ZC) + r'Receiver<.*> as iceoryx2_cal::zero_copy_connection::ZeroCopyReceiver>::receive$')
    if len(rcvs) != 1:
        R.missing('ZeroCopyReceiver::receive')
    else:
        f = rcvs[0]
        errs = agg_sites(f, r'ZeroCopyReceiveError$', 'ReceiveWouldExceedMaxBorrowValue')
        eff = f.calls(r'SafelyOverflowingIndexQueue::<.*>::pop$|::pop$')
        rc = check_before_effects(R, f, errs, eff, 'borrow-limit<pop', 'a refused receive leaves the sample in the buffer')
        if rc:
            l, rel, r, g = rc
            ok = ('borrow_counter' in l and rel == '>=' and 'max_borrowed_samples' in r) or ('borrow_counter' in r and rel == '<=' and 'max_borrowed_samples' in l)
            R.ob('CMP', 'CMP::%s::borrow-limit-shape' % fnkey(f), ok, 'refusal condition `%s %s %s`; required borrow_counter >= max_borrowed_samples' % (l, rel, r), g.where, f)
    # ---- full buffer (sender, non-overflow)
    snds = F.find_fns(r'^<' + re.escape(ZC) + r'Sender<.*> as iceoryx2_cal::zero_copy_connection::ZeroCopySender>::try_send$')
    if len(snds) != 1:
        R.missing('ZeroCopySender::try_send')
    else:
        f = snds[0]
        errs = agg_sites(f, r'ZeroCopySendError$', 'ReceiveBufferFull')
        ins = f.calls(r'UsedChunkList::<.*>::insert$')
        push = f.calls(r'SafelyOverflowingIndexQueue::<.*>::push$')
        check_before_effects(R, f, errs, ins + push, 'buffer-full-test<insert/push', 'a refused send has no side effect')
        dom(R, f, ins, push, 'used_chunk_list.insert<push', 'the offset is tracked before the receiver can see it')
        if errs:
            conds = [sym_nstr(sym(f, f.blocks[b]['t'][1])) for (b, tgt) in lib.guard_switches(f, errs[0])]
            R.ob('ONLY-UNDER', 'ONLY-UNDER::%s::ReceiveBufferFull-under-is_full' % fnkey(f), any('is_full' in c for c in conds) and any('enable_safe_overflow' in c for c in conds), 'ReceiveBufferFull guarded by %s' % conds, errs[0].where, f)
    # ---- active request limit
    cs = F.find_fns(r'^iceoryx2::port::client::ClientSharedState::<.*>::send_request$')
    if len(cs) != 1:
        R.missing('ClientSharedState::send_request')
    else:
        f = cs[0]
        errs = agg_sites(f, r'RequestSendError$', 'ExceedsMaxActiveRequests')
        inc = sites_of(atomics(f, r'active_request_counter$', 'fetch_add'))
        prep = f.calls(r'::prepare_channel_to_receive_responses$')
        deliver = f.calls(r'Sender::<.*>::deliver_offset$')
        rc = check_before_effects(R, f, errs, inc + prep + deliver, 'active-request-limit<effects', 'a refused request has no side effect')
        if rc:
            l, rel, r, g = rc
            ok = ('active_request_counter' in l and rel == '>=' and 'max_active_requests' in r) or ('active_request_counter' in r and rel == '<=' and 'max_active_requests' in l)
            R.ob('CMP', 'CMP::%s::active-request-limit-shape' % fnkey(f), ok, 'refusal condition `%s %s %s`; required counter >= limit' % (l, rel, r), g.where, f)
        # no error exit after the increment / channel open without undo
        undo = sites_of(atomics(f, r'active_request_counter$', 'fetch_sub')) + f.calls(r'::close_channel$|::abort_request$')
        for s in inc:
            for e in f.err_exit_sites():
                pth = f.exists_path(s, [e], undo)
                kind = 'fail' if (e.macro and 'fail' in e.macro) else 'question-mark'
                anc = 'deliver_offset' if deliver and f.dominates(deliver[0], e) else 'other'
                if pth is not None or True:
                    R.ob('NO-ERR-AFTER', 'NO-ERR-AFTER::%s::active_request_counter::after(%s)::%s' % (fnkey(f), anc, kind), pth is None,
                         'error exit after active_request_counter was incremented and the response channel opened, without decrement/close: no PendingResponse exists to undo it, later requests are refused within limits%s' % ('' if pth is None else ' -- path %s' % pth), e.where, f) if f.exists_path(s, [e], []) is not None else None
    # ---- subscriber QoS checks before any connection
    ss = F.find_fns(r'^iceoryx2::port::subscriber::Subscriber::<.*>::new$')
    if len(ss) != 1:
        R.missing('Subscriber::new')
    else:
        f = ss[0]
        eff = f.calls(r'::force_update_connections$') + f.calls(r'arc_sync_policy::ArcSyncPolicy::new$')
        n = 0
        for v in ('BufferSizeExceedsMaxSupportedBufferSizeOfService', 'HistoryRequestExceedsHistorySizeOfService', 'HistoryRequestExceedsBufferSizeOfSubscriber'):
            errs = agg_sites(f, r'SubscriberCreateError$', v)
            rc = check_before_effects(R, f, errs, eff, 'qos-check(%s)<connections' % v, 'an invalid request creates nothing')
            if rc:
                n += 1
                R.ob('CMP', 'CMP::%s::%s-shape' % (fnkey(f), v), rc[1] in ('>', '<'), 'refusal condition `%s %s %s` (strict: equality is within the limit)' % rc[:3], rc[3].where, f)
        R.floor('subscriber QoS checks', n, 3)
    # ---- registry: index acquired => value published (C10 shares); here: add_*_id returns None exactly on container failure
    n = 0
    for f in F.find_fns(r'^iceoryx2::service::dynamic_config::\w+::DynamicConfig::add_\w+_id$'):
        adds = f.calls(r'mpmc::container::Container::<.*>::add$')
        oks = f.calls(r'Result::<.*>::ok$')
        n += 1
        ok = len(adds) == 1 and len(oks) == 1 and f.prov_operand(oks[0].args[0]).root[0] == 'call' and f.prov_operand(oks[0].args[0]).root[1].key() == adds[0].key() and oks[0].dest == [0]
        if not ok and len(adds) == 1 and not oks:
            # the same mapping written as a match: Some(payload of Ok) under the Ok arm, None under the Err arm, nothing else returned
            some = [a for a in agg_sites(f, r'^core::option::Option$', 'Some') if a.node[1] == [0]]
            none = [a for a in agg_sites(f, r'^core::option::Option$', 'None') if a.node[1] == [0]]
            others = [s_ for s_ in f.sites if s_.i != 'T' and s_.node[0] == 'a' and s_.node[1] == [0] and s_ not in some and s_ not in none] + [s_ for s_ in f.sites if s_.is_call and s_.dest == [0]]
            ok = bool(some) and bool(none) and not others and \
                all(lib.under_arm(f, F, a, adds[0], ('Ok',)) and f.prov_operand(a.node[2][2][0]).root[0] == 'call' and f.prov_operand(a.node[2][2][0]).root[1].key() == adds[0].key() for a in some) and \
                all(lib.under_arm(f, F, a, adds[0], ('Err',)) for a in none)
        R.ob('FLOW', 'FLOW::%s::result-is-container-add.ok()' % fnkey(f), ok,
             'add_*_id returns Container::add(..).ok(): the limit refusal is the container\'s', adds[0].where if adds else f.file, f)
    R.floor('add_*_id functions', n, 8)


def error_variants(F, R):
    """The port constructors map the `None` of add_<port>_id to ExceedsMaxSupported<Port>s."""
    want = {'publisher': 'ExceedsMaxSupportedPublishers', 'subscriber': 'ExceedsMaxSupportedSubscribers', 'client': 'ExceedsMaxSupportedClients',
            'server': 'ExceedsMaxSupportedServers', 'notifier': 'ExceedsMaxSupportedNotifiers', 'listener': 'ExceedsMaxSupportedListeners',
            'reader': 'ExceedsMaxSupportedReaders', 'writer': 'ExceedsMaxSupportedWriters'}
    n = 0
    for s in F.callers_of(r'dynamic_config::\w+::DynamicConfig::add_(\w+)_id$'):
        kind = re.search(r'add_(\w+)_id$', s.callee).group(1)
        f = s.fn
        errs = [e for e in f.sites if e.i != 'T' and e.node[0] == 'a' and e.node[2][0] == 'agg' and e.node[2][1][0] == 'adt' and e.node[2][1][2] == want.get(kind)]
        key = 'CONST::%s::None->%s' % (fnkey(f), want.get(kind))
        if not errs:
            R.ob('CONST', key, False, 'the refusal of add_%s_id does not construct %s' % (kind, want.get(kind)), s.where, f)
            continue
        n += 1
        lib.only_under(R, f, F, errs, s, {'None'}, 'limit-error-on-None(%s)' % kind, 'one port too many is rejected with the specific documented error')
    R.floor('port limit error mappings', n, 8)


def check(F, R, tier):
    queue_capacity_roles(F, R)
    sizing_argument_roles(F, R)
    lib.flavour_siblings(R, F, r'^iceoryx2::service::builder::(publish_subscribe|request_response)::Builder::<.*>::(create|open|open_or_create)(_with_attributes)?$', 'SIBLINGS', 'the QoS settings a service is created with are prepared (zero values normalised, type details) the same way for every payload flavour', floor=24)
    formulas(F, R)
    formula_flow(F, R)
    limits(F, R)
    error_variants(F, R)


LEVEL_TEXT = ("Decides: sizing formulas dominate the documented worst case coefficient-wise and reach segment and sender; every limit test "
              "dominates the first side effect with a correctly oriented (non-strict where counting held units) comparison; no error exit after an "
              "un-undone effect; limit refusals construct the documented variant. Sufficiency of the formulas over histories is not decided.")
LEVEL_NOTE = "Trusted: rustc MIR; the reference polynomials of DESIGN.md C08. Not decided: worst reachable distribution over histories."
TECHNIQUE = "static analysis: polynomial abstract interpretation of sizing functions, check-dominates-effect and no-error-after-effect rules, comparison shape normalisation"
