"""C19 - names validated, domains isolated: every SemanticString mutator re-validates (two enumerated idioms), FileName rejects
NUL, '/', "", ".", ".." by construction of its predicates, every path is built prefix + name + suffix under the path hint,
listings filter through extract_name_*, all configuration builders apply prefix + suffix + root."""
import re
from . import core, lib
from .core import sym, sym_nstr
from .lib import dom, pdom, no_path, fnkey, agg_sites

EXPLANATION = (
    "Static rules: SIBLINGS over every default method of SemanticString that reaches get_mut_string: idiom A validate-then-commit "
    "(is_invalid_content dominates the commit and the commit is unreachable from the invalid arm) or idiom B commit-validate-rollback "
    "(insert_bytes: the invalid arm calls remove_range before its error exit); the remaining mutators are pure forwards. Predicate "
    "content from the MIR switch structure: FileName's invalid_characters returns true for byte values {0x00, '/'} (and the other "
    "arms), invalid_content matches exactly {\"\", \".\", \"..\"}; is_invalid_content calls both and the UTF-8 test. "
    "DOM in NamedConceptConfiguration::path_for (path hint, then prefix, name, suffix in that order); extract_name_from_file returns "
    "Some only after both strip_prefix and strip_suffix succeeded; every NamedConceptMgmt::list_cfg in iceoryx2-cal reaches an "
    "extract_name_* filter or delegates to another list_cfg; all configuration builders of service/config_scheme.rs call "
    ".prefix(global.prefix), .suffix(..), .path_hint(..); crate iceoryx2 never uses the default-configuration shortcuts "
    "NamedConceptMgmt::{list, does_exist, remove}. The predicate over all byte strings by enumeration is not decided.")
NOT_DECIDED = "the validity predicates over all byte strings by enumeration; isolation observed on a running system"

SS = 'iceoryx2_bb_container::semantic_string::SemanticString::'


def revalidation(F, R):
    muts = []
    for f in F.find_fns('^' + re.escape(SS) + r'\w+$'):
        if f.calls(r'SemanticStringAccessor.*::get_mut_string$|::get_mut_string$'):
            muts.append(f)
    R.floor('SemanticString methods reaching get_mut_string', len(muts), 7)
    for f in muts:
        gm = f.calls(r'::get_mut_string$')
        iv = f.calls(r'::is_invalid_content$')
        key = 'SIBLINGS::%s::re-validates' % fnkey(f)
        if not iv:
            R.ob('SIBLINGS', key, False, 'mutator reaches get_mut_string without any is_invalid_content call', gm[0].where, f)
            continue
        # switch on the validation result
        arms = None
        for sw_ in lib.bool_switches_on_call(f, iv[0]):   # `if invalid(..)`, `if !invalid(..)`, `let valid = !invalid(..); if valid`
            arms = sw_
        if arms is None:
            R.ob('SIBLINGS', key, False, 'the result of is_invalid_content is not branched on', iv[0].where, f)
            continue
        b, t_invalid, t_valid = arms
        inv_arm = core.Site(f, t_invalid, -1, ['invalid-arm'])
        idiom_a = all(f.dominates(iv[0], g) for g in gm) and f.exists_path(inv_arm, gm, []) is None
        # idiom B: a commit precedes validation; on the invalid arm a rollback (remove_range through get_mut_string) precedes every return
        pre = [g for g in gm if f.dominates(g, iv[0])]
        rollback = [c for c in f.calls(r'::remove_range$') if f.edge_dominates(b, t_invalid, c.b)]
        idiom_b = bool(pre) and bool(rollback) and f.exists_path(inv_arm, f.ret_sites(), rollback) is None
        # the invalid arm ends in an error
        errs = [e for e in f.err_exit_sites() if f.edge_dominates(b, t_invalid, e.b)]
        if idiom_a and not idiom_b:
            # validate-then-commit validates the CANDIDATE (a local copy the operation was applied to), not the still unchanged self
            pv = f.prov_operand(iv[0].args[0])
            cand = False
            what = pv.render()
            if pv.root[0] == 'call' and pv.root[1].args:
                p2 = f.prov_operand(pv.root[1].args[0])
                what = '%s(%s)' % (core.short(pv.root[1].callee or '?'), p2.render())
                cand = any(v[0] == 'var' for v in p2.via) or p2.root[0] in ('var', 'multi', 'local')
            R.ob('FLOW', 'FLOW::%s::validates-the-candidate' % fnkey(f), cand, 'is_invalid_content(%s): in the validate-then-commit idiom the tested bytes are those of the local copy the operation was applied to; testing `self` tests the old, still valid content and commits anything' % what[:100], iv[0].where, f)
        R.ob('SIBLINGS', key, (idiom_a or idiom_b) and bool(errs), '%s: %s; the invalid arm returns an error (%d exit)' % (f.name, 'validate-then-commit' if idiom_a else ('commit-validate-rollback' if idiom_b else 'NEITHER idiom: a commit is reachable without / despite failed validation'), len(errs)), iv[0].where, f)
    # the remaining mutators are pure forwards to validated ones
    for nm, to in (('insert', 'insert_bytes'), ('push', 'insert'), ('push_bytes', 'insert_bytes'), ('pop', 'remove')):
        f = F.fn(SS + nm)
        cs = f.calls(r'SemanticString.*::' + to + '$')
        others = f.calls(r'::get_mut_string$|::insert_bytes_unchecked$')
        R.ob('SIBLINGS', 'SIBLINGS::%s::forwards-to-%s' % (fnkey(f), to), len(cs) == 1 and not others, '%s forwards to the validated %s' % (nm, to), cs[0].where if cs else f.file, f)
    # is_invalid_content of the generated types calls characters + content tests (checked on FileName / RestrictedFileName)
    n = 0
    for f in F.find_fns(r'^<iceoryx2_bb_system_types::file_name::(FileName|RestrictedFileName<.*>) as iceoryx2_bb_container::semantic_string::internal::SemanticStringAccessor<.*>>::is_invalid_content$'):
        n += 1
        a = f.calls(r'::does_contain_invalid_characters$')
        b_ = f.calls(r'file_name::invalid_content$')
        R.ob('SIBLINGS', 'SIBLINGS::%s::characters+content' % fnkey(f), len(a) == 1 and len(b_) == 1, 'is_invalid_content = does_contain_invalid_characters || invalid_content', f.file + ':%s' % f.line, f)
    R.floor('FileName-like is_invalid_content', n, 2)
    n = 0
    for f in F.find_fns(r'^<iceoryx2_bb_system_types::file_name::(FileName|RestrictedFileName<.*>) as iceoryx2_bb_container::semantic_string::internal::SemanticStringAccessor<.*>>::does_contain_invalid_characters$'):
        n += 1
        u = f.calls(r'core::str::converts::from_utf8$|str::from_utf8$')
        c = f.calls(r'file_name::invalid_characters$')
        R.ob('SIBLINGS', 'SIBLINGS::%s::utf8+characters' % fnkey(f), len(u) == 1 and len(c) == 1, 'does_contain_invalid_characters = !utf8 || invalid_characters', f.file + ':%s' % f.line, f)
    R.floor('FileName-like does_contain_invalid_characters', n, 2)


def predicates(F, R):
    f = F.fn('iceoryx2_bb_system_types::file_name::invalid_characters')
    rejected = set()
    for g_ in [f] + F.closures_of(f):     # the byte test may be a predicate closure handed to `iter().any(..)`
        for b in range(len(g_.blocks)):
            t = g_.blocks[b]['t']
            if t[0] == 'switch' and len(t[2]) >= 3:
                for v, tgt in t[2]:
                    blk = g_.blocks[tgt]
                    sets_true = any(st[0] == 'a' and st[1] == [0] and st[2][0] == 'use' and st[2][1][0] == 'k' and st[2][1][3] == 1 for st in blk['s'])
                    if sets_true:
                        rejected.add(v)
    R.ob('PATTERN', 'PATTERN::%s::rejects-NUL-and-slash' % fnkey(f), {0, 47} <= rejected, 'byte values with an explicit `return true` arm: %s; required at least NUL (0) and `/` (47): no accepted file name can denote a location outside the root' % sorted(rejected), '%s:%s' % (f.file, f.line), f)
    g = F.fn('iceoryx2_bb_system_types::file_name::invalid_content')
    lens = set()
    bytes_ = []
    for s in g.sites:
        n = s.node
        if s.i != 'T' and n[0] == 'a' and n[2][0] == 'bin' and n[2][1] == 'Eq':
            a, b_ = sym_nstr(sym(g, n[2][2])), sym_nstr(sym(g, n[2][3]))
            if 'PtrMetadata' in a + b_:
                m = re.search(r'\b(\d+)\b', (a + ' ' + b_).replace('PtrMetadata', ''))
                if m:
                    lens.add(int(m.group(1)))
        if s.i == 'T' and n[0] == 'switch' and n[1][0] in ('c', 'm') and any(isinstance(x, str) and x.startswith('[') for x in n[1][1][1:]):
            bytes_.append(sorted(v for v, t in n[2]))
    # the same set written with comparisons: `value.is_empty() || value == b"." || value == b".."`
    lits = set()
    for s in g.sites:
        if s.is_call and re.search(r'\[T\]>::is_empty$', s.callee or ''):
            lits.add('')
        if s.is_call and re.search(r'PartialEq.*::eq$', s.callee or ''):
            for a_ in s.args:
                p_ = g.prov_operand(a_)
                if p_.root[0] == 'const' and len(p_.root[1]) > 4 and isinstance(p_.root[1][4], str):
                    m = re.match(r'^promoted\[b"(.*)"\]$', p_.root[1][4])
                    if m:
                        lits.add(m.group(1))
    if lits and not bytes_ and not lens:
        R.ob('PATTERN', 'PATTERN::%s::exactly-empty-dot-dotdot' % fnkey(g), lits == {'', '.', '..'}, 'compared against the literals %s; required exactly "", ".", ".."' % sorted(lits), '%s:%s' % (g.file, g.line), g)
    elif not lits and not bytes_ and not lens:
        R.notes.append('PATTERN::%s::exactly-empty-dot-dotdot: neither a slice pattern nor literal comparisons recognised - not judged' % fnkey(g))
    else:
      R.ob('PATTERN', 'PATTERN::%s::exactly-empty-dot-dotdot' % fnkey(g), lens == {0, 1, 2} and bytes_ == [[46], [46], [46]], 'slice lengths tested: %s, byte patterns: %s; required lengths {0,1,2} with every byte == 46 (\'.\'): "", ".", ".."' % (sorted(lens), bytes_), '%s:%s' % (g.file, g.line), g)


def paths(F, R):
    NC = 'iceoryx2_cal::named_concept::NamedConceptConfiguration::'
    f = F.fn(NC + 'path_for')
    ph = f.calls(r'::get_path_hint$')
    pre = [c for c in f.calls(r'::add_path_entry$')]
    pb = f.calls(r'::push_bytes$')
    ok = len(ph) >= 1 and len(pre) == 1 and len(pb) == 2
    R.ob('DOM', 'DOM::%s::shape' % fnkey(f), ok, 'path_for = path_hint + add_path_entry(prefix) + push_bytes(name) + push_bytes(suffix) (%d/%d/%d calls)' % (len(ph), len(pre), len(pb)), f.file + ':%s' % f.line, f)
    if ok:
        order = [ph[0], pre[0]] + sorted(pb, key=lambda s: s.line)
        for a, b_ in zip(order, order[1:]):
            R.ob('DOM', 'DOM::%s::%s<%s' % (fnkey(f), core.short(a.callee), core.short(b_.callee) + '@%d' % order.index(b_)), f.dominates(a, b_), 'component order of every resource name', b_.where, f)
        t_pre = sym_nstr(sym(f, pre[0].args[1]))
        t1, t2 = [sym_nstr(sym(f, c.args[1])) for c in sorted(pb, key=lambda s: s.line)]
        R.ob('FLOW', 'FLOW::%s::prefix-name-suffix' % fnkey(f), 'get_prefix' in t_pre and 'value' in t1 and 'get_suffix' in t2, 'components: %s | %s | %s' % (t_pre[:60], t1[:60], t2[:60]), pre[0].where, f)
    ex = F.fn(NC + 'extract_name_from_file')
    sp = ex.calls(r'::strip_prefix$')
    ss = ex.calls(r'::strip_suffix$')
    some = agg_sites(ex, r'core::option::Option$', 'Some')
    dom(R, ex, sp, some, 'strip_prefix<Some(name)', 'a foreign prefix is never listed')
    dom(R, ex, ss, some, 'strip_suffix<Some(name)', 'a foreign suffix is never listed')
    for c, nm in ((sp, 'prefix'), (ss, 'suffix')):
        if c:
            t = sym_nstr(sym(ex, c[0].args[1]))
            R.ob('FLOW', 'FLOW::%s::strips-own-%s' % (fnkey(ex), nm), 'get_%s' % nm in t, 'strip_%s(%s)' % (nm, t[:80]), c[0].where, ex)
    exp = F.fn(NC + 'extract_name_from_path')
    cmpc = [s for s in exp.sites if s.is_call and re.search(r'PartialEq.*::ne$|PartialEq.*::eq$', s.callee or '')]
    R.ob('DOM', 'DOM::%s::path-hint-compared' % fnkey(exp), bool(cmpc) and bool(exp.calls(r'::extract_name_from_file$')) and all(exp.dominates(cmpc[0], c) for c in exp.calls(r'::extract_name_from_file$')), 'the directory must equal the path hint before the file name is considered', cmpc[0].where if cmpc else exp.file, exp)
    # overriders of path_for delegate
    n = 0
    for g in F.find_fns(r'^<iceoryx2_cal::.* as iceoryx2_cal::named_concept::NamedConceptConfiguration>::path_for$'):
        n += 1
        cs = g.calls(r'::path_for$|::path_for_with_type$')
        R.ob('SIBLINGS', 'SIBLINGS::%s::delegates' % fnkey(g), len(cs) >= 1, 'an overriding path_for delegates to another path_for (%s)' % [core.short(c.callee) for c in cs], g.file + ':%s' % g.line, g)
    R.floor('path_for overriders', n, 4)


def listings(F, R):
    n = 0
    for f in F.find_fns(r'^<iceoryx2_cal::.* as iceoryx2_cal::named_concept::NamedConceptMgmt>::list_cfg$'):
        n += 1
        bodies = [f] + F.closures_of(f)
        filt = sum((b.calls(r'::extract_name_from_file$|::extract_name_from_path$') for b in bodies), [])
        deleg = sum(([c for c in b.calls(r'::list_cfg$') if c.callee != f.id] for b in bodies), [])
        proc_local = 'process_local' in f.id or 'recommended' in f.id
        R.ob('SIBLINGS', 'SIBLINGS::%s::filters-or-delegates' % fnkey(f), bool(filt) or bool(deleg), 'list_cfg %s' % ('filters through extract_name_*' if filt else ('delegates to %s' % [core.short(c.callee) for c in deleg] if deleg else 'neither filters nor delegates')), f.file + ':%s' % f.line, f)
    R.floor('NamedConceptMgmt::list_cfg impls in cal', n, 12)


def configurations(F, R):
    n = 0
    for f in F.fn_list:
        if f.crate != 'iceoryx2' or f.kind != 'fn' or not (f.file.endswith('service/config_scheme.rs') or f.file.endswith('node/global_management_segment.rs')):
            continue
        if not f.name.endswith('_config'):
            continue
        n += 1
        pre = f.calls(r'NamedConceptConfiguration.*::prefix$')
        suf = f.calls(r'NamedConceptConfiguration.*::suffix$')
        ph = f.calls(r'NamedConceptConfiguration.*::path_hint$')
        key = 'SIBLINGS::%s::' % fnkey(f)
        R.ob('SIBLINGS', key + 'prefix+suffix+path_hint', len(pre) == 1 and len(suf) == 1 and len(ph) == 1, 'configuration builder calls .prefix (%d) .suffix (%d) .path_hint (%d)' % (len(pre), len(suf), len(ph)), f.file + ':%s' % f.line, f)
        for c in pre:
            t = sym_nstr(sym(f, c.args[1]))
            R.ob('FLOW', key + 'prefix-is-global-prefix', t.endswith('global.prefix'), '.prefix(%s)' % t, c.where, f)
        for c in ph:
            t = sym_nstr(sym(f, c.args[1]))
            R.ob('FLOW', key + 'path-under-root', lib.has_origin(f, c.args[1], r'::(root_path|path_hint|node_details_path|node_dir|service_resource_directory)$') or 'phi' in t, '.path_hint(%s)' % t[:100], c.where, f)
    R.floor('configuration builders', n, 12)
    # crate iceoryx2 never uses the default-configuration shortcuts
    bad = []
    for s in F.callers_of(r'named_concept::NamedConceptMgmt::(list|does_exist|remove)$'):
        if s.fn.crate == 'iceoryx2':
            bad.append(s)
    for s in bad:
        R.ob('WHO-MAY-CALL', 'WHO-MAY-CALL::default-config-shortcut::%s' % fnkey(s.fn), False, '%s ignores the domain configuration (prefix/root)' % core.short(s.callee), s.where, s.fn)
    R.ob('WHO-MAY-CALL', 'WHO-MAY-CALL::default-config-shortcuts::summary', not bad, 'crate iceoryx2 calls only the *_cfg forms of list / does_exist / remove (%d shortcut uses)' % len(bad), 'iceoryx2/src')


def looked_up_hash_is_the_stored_hash(F, R):
    """Domain isolation of Service::list / details / does_exist: a static service config found under the file name built from <prefix><hash>
    is accepted only if the hash STORED in it equals the looked-up hash (a config of the domain with prefix `ab` is found under prefix `a`
    as hash `b<hash>`).  The single reader read_static_service_config returns Some(config) only under that equality."""
    f = F.fn_opt('iceoryx2::service::read_static_service_config')
    if f is None:
        R.missing('iceoryx2::service::read_static_service_config')
        return
    somes = [o for o in f.ok_exit_sites()]
    n = 0
    for o in somes:
        conds = lib.path_conds(f, o, F)
        if not any('deserialize(' in c for c in conds):
            continue    # the Ok(None) exit (storage does not exist)
        n += 1
        hp = r'\$%d' % lib.param_index(f, 'service_hash', 2)
        cc = [lib.canon(f, c) for c in conds]
        ok = any(re.search(r'^\(%s == StaticConfig::service_hash\(' % hp, c) or re.search(r'^\(StaticConfig::service_hash\(.* == %s\)$' % hp, c) for c in cc)
        if not ok:
            # the comparison may equally live in the common caller of every lookup (__internal_details)
            g = F.fn_opt('iceoryx2::service::__internal_details')
            if g is not None:
                for b_ in range(len(g.blocks)):
                    t_ = g.blocks[b_]['t']
                    if t_[0] == 'switch' and re.search(r'StaticConfig::service_hash\(', sym_nstr(sym(g, t_[1]))) and re.search(r'\bne\(|\beq\(|==|!=', sym_nstr(sym(g, t_[1]))) and g.calls(r'read_static_service_config$') and all(g.dominates(g.term_site(b_), e_) for e_ in g.ok_exit_sites() if any('read_static_service_config' in c_ for c_ in lib.path_conds(g, e_, F))):
                        ok = True
        R.ob('ONLY-UNDER', 'ONLY-UNDER::%s::config-returned-only-if-stored-hash-matches' % fnkey(f), ok, 'Ok(Some(config)) is returned under %s' % ([c[:70] for c in conds if 'hash' in c][:2] or 'no hash comparison'), o.where, f)
    R.floor('config-returning exits of read_static_service_config', n, 1)
    callers = set(core.strip_generics(s_.fn.id) for s_ in F.callers_of(r'service::__internal_details$'))
    R.ob('WHO-MAY-CALL', 'WHO-MAY-CALL::iceoryx2::service::__internal_details::reads-through-read_static_service_config', bool(F.fn_opt('iceoryx2::service::__internal_details')) and bool(F.fn_opt('iceoryx2::service::__internal_details').calls(r'read_static_service_config$')), 'Service::list/details/does_exist go through __internal_details -> read_static_service_config (callers of __internal_details: %s)' % sorted(x.rsplit('::', 1)[-1] for x in callers), f.file, f)


def check(F, R, tier):
    looked_up_hash_is_the_stored_hash(F, R)
    revalidation(F, R)
    predicates(F, R)
    paths(F, R)
    listings(F, R)
    configurations(F, R)


LEVEL_TEXT = ("Decides: every mutator re-validates (one of two idioms), FileName's predicates reject NUL, '/', \"\", \".\", \"..\" by construction, "
              "every resource path is path-hint/prefix+name+suffix, listings filter by prefix and suffix, every configuration builder applies the domain's "
              "prefix and root. Necessary conditions of validation and isolation; exhaustive evaluation of the predicates is not decided.")
LEVEL_NOTE = "Trusted: rustc MIR (match lowering of the byte patterns). If the predicates are rewritten in a shape the extractor does not understand the check fails closed (stated cost)."
TECHNIQUE = "static analysis: sibling idiom check of mutators, pattern-set extraction from MIR switches, dominance on path construction, sibling configuration cross-check"
