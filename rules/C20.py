"""C20 - WaitSet dispatch: guard Drop detaches on all paths, no error exit after a map insertion (a refused attach is side-effect
free), deadlines are reset before callbacks, refusals report the documented error, guards one layer down detach themselves."""
import re
from . import core, lib
from .core import sym, sym_nstr
from .lib import dom, pdom, no_path, atomics, sites_of, fnkey, const_arg, agg_sites

EXPLANATION = (
    "Static rules over MIR of iceoryx2/src/waitset.rs and the guards one layer down: MUST-CALL (WaitSetGuard::drop -> detach() on "
    "every path incl. unwind; on the Deadline arm additionally remove_deadline(fd, index)); NO-ERR-AFTER (effects = insertion into "
    "attachment_to_deadline / deadline_to_attachment and attachment_counter++; no error exit is reachable after them in "
    "attach_notification / attach_deadline / attach_interval: attaching beyond the capacity is refused without side effects); DOM "
    "(all reset_deadline calls < handle_deadlines < first notification callback); CONST (attach_to_reactor maps "
    "ReactorAttachError::CapacityExceeded to InsufficientCapacity and AlreadyAttached to AlreadyAttached); SIBLINGS (EpollGuard / "
    "FileDescriptorSetGuard / DeadlineQueueGuard Drop call their owner's remove with their own fd/index). Plus compile-fail witnesses "
    "(a guard cannot outlive the wait set, an attachment cannot be dropped while its guard lives). Exactness over attach/detach/notify "
    "histories (descriptor reuse is run-time) is not decided.")
NOT_DECIDED = "exactness of dispatch over attach/detach/notify histories with descriptor reuse"

W = 'iceoryx2::waitset::WaitSet::<Service>::'


def guard_drop(F, R):
    ds = F.find_fns(r"^<iceoryx2::waitset::WaitSetGuard<'.*> as core::ops::drop::Drop>::drop$")
    if len(ds) != 1:
        R.missing('Drop for WaitSetGuard')
        return
    d = ds[0]
    det = d.calls(r'WaitSet::<.*>::detach$')
    ok = bool(det) and d.exists_path(None, d.ret_sites(), det, from_entry=True) is None
    R.ob('MUST-CALL', 'MUST-CALL::%s::detach' % fnkey(d), ok, 'WaitSetGuard::drop gives its slot back on every path', det[0].where if det else d.file, d)
    rd = d.calls(r'WaitSet::<.*>::remove_deadline$')
    okd = False
    for r_ in rd:
        for b in range(len(d.blocks)):
            si = d.switch_info(b)
            if si and (si.get('enum_ty') or '').startswith('iceoryx2::waitset::GuardType'):
                for lab, tgt in lib.arm_blocks(d, b, lambda l: l == 'Deadline', F):
                    if d.edge_dominates(b, tgt, r_.b):
                        # on the Deadline arm every path to return passes remove_deadline
                        okd = d.exists_path(core.Site(d, tgt, -1, ['arm']), d.ret_sites(), rd) is None
    R.ob('MUST-CALL', 'MUST-CALL::%s::remove_deadline-on-Deadline-arm' % fnkey(d), okd, 'a deadline guard removes both map entries when dropped', rd[0].where if rd else d.file, d)
    for r_ in rd:
        a1, a2 = sym_nstr(sym(d, lib.arg(F, r_, 'reactor_idx', 1))), sym_nstr(sym(d, lib.arg(F, r_, 'deadline_queue_idx', 2)))
        R.ob('FLOW', 'FLOW::%s::removes-own-fd-and-index' % fnkey(d), 'native_handle' in a1 and 'index' in a2 and 'guard_type' in a1 and 'guard_type' in a2, 'remove_deadline(%s, %s)' % (a1[:90], a2[:90]), r_.where, d)
    # the reactor / deadline guards are fields of GuardType: their own Drop detaches them
    gt = F.adt('iceoryx2::waitset::GuardType')
    vs = {v['name']: [x['ty_s'] for x in v['fields']] for v in gt['variants']}
    R.ob('TYPE', 'TYPE::iceoryx2::waitset::GuardType::owns-sub-guards', set(vs) >= {'Tick', 'Deadline', 'Notification'} and len(vs['Deadline']) == 2 and len(vs['Notification']) == 1 and len(vs['Tick']) == 1,
         'GuardType variants own the reactor / deadline-queue guards: %s' % {k: [x[-60:] for x in v] for k, v in vs.items()}, '%s:%s' % (gt['file'], gt['line']))
    rm = F.fn(W + 'remove_deadline')
    rmv = rm.calls(r'::remove$')
    got = sorted(rm.chain(c.args[0]) for c in rmv)
    R.ob('FLOW', 'FLOW::%s::removes-from-both-maps' % fnkey(rm), any('attachment_to_deadline' in g for g in got) and any('deadline_to_attachment' in g for g in got), 'remove_deadline removes from %s' % got, rm.file + ':%s' % rm.line, rm)


def attach_side_effect_free(F, R):
    for nm in ('attach_notification', 'attach_deadline', 'attach_interval'):
        f = F.fn(W + nm)
        ins = [c for c in f.calls(r'::insert$') if re.search(r'attachment_to_deadline|deadline_to_attachment', f.chain(c.args[0]))]
        att = f.calls(r'WaitSet::<.*>::attach$')
        effects = ins
        errs = f.err_exit_sites()
        key = 'NO-ERR-AFTER::%s::' % fnkey(f)
        for e_ in effects:
            mp = 'attachment_to_deadline' if 'attachment_to_deadline' in f.chain(e_.args[0]) else 'deadline_to_attachment'
            undo = f.calls(r'WaitSet::<.*>::remove_deadline$')
            pth = None
            for e in errs:
                pth = pth or f.exists_path(e_, [e], undo)
            R.ob('NO-ERR-AFTER', key + 'map-insert(%s)' % mp, pth is None, 'no error exit is reachable after the insertion into %s without remove_deadline: a refused attach must leave no stale entry%s' % (mp, '' if pth is None else ' -- path %s' % pth), e_.where, f)
        # the counter is incremented by the last fallible step
        R.ob('FLOOR', 'floor::%s::attach() call' % fnkey(f), len(att) == 1, '%d attach() call(s)' % len(att), f.file, f)
        for a in att:
            pth = None
            # after attach() succeeded (Continue arm of its `?`) nothing can fail
            for b in lib.switches_on_result_of(f, a, lib.TRY_BRANCH):
                for lab, tgt in lib.arm_blocks(f, b, lambda l: l in ('Continue', 'Ok'), F):
                    for e in errs:
                        pth = pth or f.exists_path(core.Site(f, tgt, -1, ['arm']), [e], [])
            R.ob('NO-ERR-AFTER', key + 'counter', pth is None, 'no error exit after attach() succeeded (attachment_counter was incremented)', a.where, f)
        dom(R, f, att, f.ok_exit_sites(), 'attach()<Ok(guard)', 'every guard holds a counted slot')
    at = F.fn(W + 'attach')
    errs = agg_sites(at, r'WaitSetAttachmentError$', 'InsufficientCapacity')
    inc = sites_of(atomics(at, r'attachment_counter$', 'fetch_add'))
    lib.check_before_effects(R, at, errs, inc, 'capacity-test<counter++', 'a refused attach does not count')
    rc = lib.refusal_condition(at, errs[0]) if errs else None
    R.ob('CMP', 'CMP::%s::capacity-shape' % fnkey(at), bool(rc) and rc[1] in ('==', '>=') and 'len' in rc[0] + rc[2] and 'capacity' in rc[0] + rc[2], 'refusal condition %s' % (rc[:3] if rc else None,), rc[3].where if rc else at.file, at)
    de = F.fn(W + 'detach')
    dec = atomics(de, r'attachment_counter$', 'fetch_sub')
    R.ob('PAIR', 'PAIR::%s::counter--' % fnkey(de), len(dec) == 1 and de.const_of(dec[0].site.args[1]) == 1, 'detach() gives exactly one slot back', dec[0].site.where if dec else de.file, de)


def reactor_error_mapping(F, R):
    f = F.fn(W + 'attach_to_reactor')
    att = f.calls(r'Reactor.*::attach$')
    if len(att) != 1:
        R.missing('Reactor::attach call in attach_to_reactor')
        return
    want = {'CapacityExceeded': 'InsufficientCapacity', 'AlreadyAttached': 'AlreadyAttached'}
    for b in range(len(f.blocks)):
        si = f.switch_info(b)
        if not si or not (si.get('enum_ty') or '').endswith('ReactorAttachError'):
            continue
        for src, dst in want.items():
            for lab, tgt in lib.arm_blocks(f, b, lambda l, s=src: l == s, F):
                built = [s for s in agg_sites(f, r'WaitSetAttachmentError$') if f.edge_dominates(b, tgt, s.b)]
                got = sorted(set(s.node[2][1][2] for s in built))
                R.ob('CONST', 'CONST::%s::%s->%s' % (fnkey(f), src, dst), got == [dst], 'ReactorAttachError::%s is reported as WaitSetAttachmentError::%s; documented: %s' % (src, got, dst), built[0].where if built else f.term_site(b).where, f)
    R.floor('ReactorAttachError arms mapped', len([o for o in R.obligations if o['key'].startswith('CONST::%s::' % fnkey(f))]), 2)


def processing_order(F, R):
    h = F.fn(W + 'handle_all_attachments')
    rs = h.calls(r'WaitSet::<.*>::reset_deadline$')
    hd = h.calls(r'WaitSet::<.*>::handle_deadlines$')
    cb = lib.param_calls(h, 'fn_call', 3)
    dom(R, h, hd, cb, 'handle_deadlines<notification-callbacks', 'missed deadlines are reported before notifications')
    # all resets precede handle_deadlines: handle_deadlines is not reachable back to a reset
    ok = bool(rs) and bool(hd) and h.exists_path(hd[0], rs, []) is None and h.exists_path(None, hd, rs, from_entry=True) is None or (bool(rs) and bool(hd) and h.exists_path(hd[0], rs, []) is None)
    R.ob('DOM', 'DOM::%s::reset_deadline-loop<handle_deadlines' % fnkey(h), ok, 'the deadline-reset loop completes before deadlines are evaluated (a long callback must not extend a deadline)', hd[0].where if hd else h.file, h)
    pth = h.exists_path(cb[0], rs, []) if cb and rs else [0]
    R.ob('DOM', 'DOM::%s::no-reset-after-callback' % fnkey(h), pth is None, 'no reset_deadline is reachable after a notification callback ran', cb[0].where if cb else h.file, h)
    for c in cb:
        t = sym_nstr(sym(h, c.args[1]))
        R.ob('FLOW', 'FLOW::%s::id-from-triggered-descriptor' % fnkey(h), lib.has_origin(h, c.args[1], r'WaitSetAttachmentId::<.*>::notification$|WaitSetAttachmentId::notification$', ('triggered_file_descriptors', 2)), 'callback id = %s' % t[:160], c.where, h)
    hdl = F.fn(W + 'handle_deadlines')
    cl = [c for c in F.closures_of(hdl) if c.calls(r'WaitSetAttachmentId::<.*>::(deadline|tick)$')]
    R.ob('FLOW', 'FLOW::%s::deadline-vs-tick-by-map-presence' % fnkey(hdl), len(cl) == 1 and bool(cl[0].calls(r'::get$')), 'deadline(..) vs tick(..) is chosen by presence in deadline_to_attachment', cl[0].file + ':%s' % cl[0].line if cl else hdl.file, hdl)
    md = hdl.calls(r'DeadlineQueue::missed_deadlines$')
    R.ob('FLOW', 'FLOW::%s::ids-from-missed_deadlines' % fnkey(hdl), len(md) == 1, 'deadline indices are delivered by DeadlineQueue::missed_deadlines only', md[0].where if md else hdl.file, hdl)
    # the deadline queue evaluates expiry against ONE clock reading and remembers exactly that reading as `previous_iteration`:
    # a later reading (after the callbacks ran) silently skips every period boundary that fell in between
    nq = 0
    for q in F.find_fns(r'^iceoryx2_bb_posix::deadline_queue::DeadlineQueue::\w+$'):
        hm = q.calls(r'DeadlineQueue::handle_missed_deadlines$')
        st = [s_ for s_ in q.sites if s_.i != 'T' and s_.node[0] == 'a' and len(s_.node[1]) > 1 and s_.node[1][-1] == '*' and 'previous_iteration' in q.chain(s_.node[1][:1]) and s_.node[2][0] == 'use']
        if not hm or not st:
            continue
        nq += 1
        clk = q.calls(r'Time::now(_with_clock)?$')
        t_eval = sym_nstr(sym(q, hm[0].args[1]))
        t_store = sym_nstr(sym(q, st[0].node[2][1]))
        R.ob('SYM-EQ', 'SYM-EQ::%s::previous_iteration=evaluation-time' % fnkey(q), len(clk) == 1 and t_eval == t_store, 'expiry is evaluated at `%s`, previous_iteration := `%s`, %d clock reading(s): the remembered time is the evaluation time (one reading)' % (t_eval[:80], t_store[:80], len(clk)), st[0].where, q)
    R.floor('DeadlineQueue functions that evaluate and remember the time', nq, 2)
    w = F.find_fns(r'^iceoryx2::waitset::WaitSet::<Service>::wait_and_process_once_with_timeout$')
    if len(w) == 1:
        f = w[0]
        bodies = [f] + F.closures_of(f)
        waits = sum((b.calls(r'Reactor.*::(timed_wait|try_wait|blocking_wait)$') for b in bodies), [])
        handles = sum((b.calls(r'WaitSet::<.*>::handle_all_attachments$|WaitSet::<.*>::handle_deadlines$') for b in bodies), [])
        w_here = [x for x in waits if x.fn is f]
        h_here = [x for x in handles if x.fn is f]
        pth = f.exists_path(None, h_here, w_here, from_entry=True) if w_here and h_here else [0]
        R.ob('DOM', 'DOM::%s::collect-before-dispatch' % fnkey(f), pth is None and len(h_here) >= 2, 'no path reaches handle_deadlines / handle_all_attachments without passing the reactor wait (descriptor collection completes before any callback)', w_here[0].where if w_here else f.file, f)
    else:
        R.missing('wait_and_process_once_with_timeout')


def lower_guards(F, R):
    table = [
        (r"^<iceoryx2_bb_linux::epoll::EpollGuard<'.*> as core::ops::drop::Drop>::drop$", r'Epoll::remove$|::remove$', 'EpollGuard'),
        (r"^<iceoryx2_bb_posix::file_descriptor_set::FileDescriptorSetGuard<'.*> as core::ops::drop::Drop>::drop$", r'FileDescriptorSet::remove$|::remove$', 'FileDescriptorSetGuard'),
        (r"^<iceoryx2_bb_posix::deadline_queue::DeadlineQueueGuard<'.*> as core::ops::drop::Drop>::drop$", r'DeadlineQueue::remove$|::remove$', 'DeadlineQueueGuard'),
    ]
    n = 0
    for pat, callee, nm in table:
        ds = F.find_fns(pat)
        key = 'SIBLINGS::Drop(%s)::removes-own-entry' % nm
        if len(ds) != 1:
            R.ob('SIBLINGS', key, False, 'anchor-missing: Drop impl (%d)' % len(ds), nm)
            continue
        d = ds[0]
        n += 1
        cs = d.calls(callee)
        ok = bool(cs) and d.exists_path(None, d.ret_sites(), cs, from_entry=True) is None
        args = ' '.join(sym_nstr(sym(d, a)) for a in cs[0].args[1:]) if cs else ''
        R.ob('SIBLINGS', key, ok and 'self' in args, '%s::drop calls the owner\'s remove(%s) on every path' % (nm, args[:100]), cs[0].where if cs else d.file, d)
    R.floor('lower-layer guards', n, 3)


def fd_set_max(F, R):
    """FileDescriptorSet (posix_select reactor): select() only examines descriptors below max_fd, so max_fd must stay above every attached
    descriptor.  The invariant is kept by construction when max_fd is only ever reset to 0 (followed by a scan) or raised by
    max(max_fd, fd + 1); a value taken from a single element (first / last attached) under-approximates after a re-attachment."""
    n = 0
    for f in F.find_fns(r'^iceoryx2_bb_posix::file_descriptor_set::FileDescriptorSet::\w+$'):
        for s_ in f.sites:
            if s_.i != 'T' and s_.node[0] == 'a' and len(s_.node[1]) > 1 and s_.node[1][-1] == '.max_fd':
                n += 1
                t = sym_nstr(sym(f, s_.node[2][1])) if s_.node[2][0] == 'use' else s_.node[2][0]
                ok = t == '0' or re.match(r'^cmp::max\(.*max_fd, .*\)$', t) is not None or re.match(r'^cmp::max\(.*, .*max_fd\)$', t) is not None
                R.ob('SYM-EQ', 'SYM-EQ::%s::max_fd-only-reset-or-raised#%d' % (fnkey(f), n), ok, 'max_fd := %s ; allowed: 0 (start of a full rescan) or max(max_fd, fd + 1)' % t[:120], s_.where, f)
    R.floor('stores to FileDescriptorSet::max_fd', n, 3)



def epoll_guard_after_registration(F, R):
    """Epoll attach: the EpollGuard (whose Drop issues EPOLL_CTL_DEL for the fd and decrements len) comes into existence only after
    epoll_ctl(ADD) succeeded - no refusal is reachable once it exists.  A guard built up front is dropped on the EEXIST refusal and
    deregisters the FIRST, still live attachment of the same fd: its events are never reported again (a blocking wait hangs)."""
    fs = F.find_fns(r'^iceoryx2_bb_linux::epoll::EpollAttachmentBuilder::<.*>::attach$')
    if len(fs) != 1:
        R.missing('EpollAttachmentBuilder::attach')
        return
    f = fs[0]
    guards = lib.agg_sites(f, r'^iceoryx2_bb_linux::epoll::EpollGuard$')
    ctl = f.calls(r'epoll_ctl$')
    errs = f.err_exit_sites()
    key = 'NO-ERR-AFTER::%s::guard-exists-only-after-registration' % fnkey(f)
    if not guards or not ctl:
        R.ob('NO-ERR-AFTER', key, False, 'anchor-missing: EpollGuard construction (%d) / epoll_ctl (%d)' % (len(guards), len(ctl)), f.file, f)
        return
    for g in guards:
        pth = f.exists_path(g, errs, [])
        R.ob('NO-ERR-AFTER', key, pth is None and all(f.dominates(c, g) for c in ctl), 'EpollGuard is constructed after epoll_ctl(ADD) and no refusal is reachable afterwards%s' % ('' if pth is None else ' -- refusal reachable with a live guard: blocks %s' % pth), g.where, f)
    adds = [a for a in f.atomic_ops() if a.op == 'fetch_add']
    for a in adds:
        pth = f.exists_path(a.site, errs, [])
        R.ob('NO-ERR-AFTER', 'NO-ERR-AFTER::%s::len-counted-only-after-registration' % fnkey(f), pth is None, 'len is incremented only when nothing can fail any more', a.site.where, f)

def check(F, R, tier):
    epoll_guard_after_registration(F, R)
    fd_set_max(F, R)
    guard_drop(F, R)
    attach_side_effect_free(F, R)
    reactor_error_mapping(F, R)
    processing_order(F, R)
    lower_guards(F, R)


def witnesses(R, tier):
    from . import witness
    return witness.run(R, 'C20', tier)


LEVEL_TEXT = ("Decides on all CFG paths: guards detach in Drop, attach functions have no error exit after a side effect, the capacity refusal reports "
              "the documented error, deadlines are reset before any callback, ids come only from collected descriptors / missed deadlines; plus compile-fail "
              "witnesses for guard/attachment lifetimes. The epoll guard exists only after a successful registration. Dispatch exactness over histories with descriptor reuse is not decided.")
LEVEL_NOTE = "Trusted: rustc MIR and borrow checker. Not decided: exactness over attach/detach/notify histories."
TECHNIQUE = "static analysis: must-call in Drop, no-error-after-effect path rule, constant-mapping rule, dominance; compile-fail witnesses"
