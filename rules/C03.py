"""C03 - lock-free SPSC channels: release/acquire publication discipline, slot-count agreement and
completion-queue sizing, decided on the MIR of the three queue implementations and the connection layer."""
import re
from . import core, lib
from .core import sym, sym_nstr, sym_place, poly, poly_ge, poly_str, NotPoly
from .lib import ord_floor, dom, pdom, no_path, atomics, raw, sites_of, fnkey

EXPLANATION = (
    "Static rules over MIR (rustc nightly, mir-opt-level=0): ORD = the constant memory-ordering operand of an atomic call is "
    "in the floor class the protocol needs; DOM/PDOM = dominance / post-dominance of the raw slot access relative to the "
    "publishing atomic on every non-unwind CFG path; SYM-EQ/POLY = symbolic equality / coefficient-wise dominance of the "
    "slot-count and queue-size expressions; FLOW = which constructor parameter reaches which queue. Decides the "
    "release/acquire publication discipline and capacity arithmetic that linearizable FIFO behaviour under C11 needs; "
    "it does not decide linearizability over interleavings.")
NOT_DECIDED = "linearizability / conservation over all interleavings (model checking territory)"

LF = 'iceoryx2_bb_lock_free::spsc::'
IQ = LF + 'index_queue::details::IndexQueue::<PointerType>::'
SOQ = LF + 'safely_overflowing_index_queue::details::SafelyOverflowingIndexQueue::<PointerType>::'
Q = LF + 'queue::Queue::<T, CAPACITY>::'
ZC = 'iceoryx2_cal::zero_copy_connection::common::details::'


def spsc_plain(F, R, prefix, ptr_pat):
    """index_queue / queue: classic SPSC publication."""
    push = F.fn(prefix + 'push')
    pop = F.fn(prefix + 'pop')
    # --- push
    ld = ord_floor(R, push, r'^self\.read_position$', 'load', 0, 'A', 'slot reuse must happen-after the consumer finished reading it')
    st = ord_floor(R, push, r'^self\.write_position$', 'store', 0, 'R', 'publishes the slot write to the consumer')
    w = raw(push, 'write', ptr_pat)
    dom(R, push, sites_of(ld), w, 'acquire-load(read_position)<slot-write', 'consumer progress observed before the slot is overwritten')
    dom(R, push, w, sites_of(st), 'slot-write<release-store(write_position)', 'slot contents written before they are published')
    pdom(R, push, w, sites_of(st), 'slot-write|>store(write_position)', 'a written slot is always published')
    # --- pop
    ld2 = ord_floor(R, pop, r'^self\.write_position$', 'load', 0, 'A', 'acquires the producer\'s slot write')
    st2 = ord_floor(R, pop, r'^self\.read_position$', 'store', 0, 'R', 'hands the slot back only after it was read')
    rd = raw(pop, 'read', ptr_pat)
    dom(R, pop, sites_of(ld2), rd, 'acquire-load(write_position)<slot-read', 'slot is read only after the publication was observed')
    dom(R, pop, rd, sites_of(st2), 'slot-read<release-store(read_position)', 'slot is released to the producer after the read')
    handover(F, R, prefix)


def handover(F, R, prefix):
    for role in ('producer', 'consumer'):
        acq = F.fn(prefix + 'acquire_' + role)
        ord_floor(R, acq, r'^self\.has_%s$' % role, 'compare_exchange(_weak)?', 0, 'A',
                  'hand-over between threads: new %s must observe the previous one\'s cursor (push/pop start with a Relaxed load of their own cursor)' % role)
    mod = prefix.split('::details::')[0].split('::Queue::')[0]
    for role, ty in (('producer', 'Producer'), ('consumer', 'Consumer')):
        drops = F.find_fns(r'^<%s::%s<.*> as core::ops::drop::Drop>::drop$' % (mod.replace('::', '::'), ty))
        if not drops:
            R.missing('Drop for %s::%s' % (mod, ty))
            continue
        for d in drops:
            ord_floor(R, d, r'^self\.queue\.has_%s$' % role, 'store', 0, 'R', 'hand-over: releases everything the %s did' % role)


def overflowing(F, R):
    push = F.fn(SOQ + 'push')
    pop = F.fn(SOQ + 'pop')
    at = r'SafelyOverflowingIndexQueue::at'
    st = ord_floor(R, push, r'^self\.write_position$', 'store', 0, 'R', 'publishes the slot write to the consumer')
    cas = ord_floor(R, push, r'^self\.read_position$', 'compare_exchange(_weak)?', 0, 'R',
                    'the consumer\'s failed CAS (acquire) must see the slot the producer wrote before evicting')
    w = raw(push, 'write', at)
    rd = raw(push, 'read', at)
    dom(R, push, w, sites_of(st), 'slot-write<release-store(write_position)', 'slot contents written before publication')
    dom(R, push, sites_of(st), sites_of(cas), 'store(write_position)<CAS(read_position)', 'new element is visible before the oldest one is evicted')
    dom(R, push, sites_of(cas), rd, 'CAS(read_position)<read-of-evicted-slot', 'evicted value is taken only after winning the CAS')
    # the evicted slot is read only on the CAS-Ok arm (match, if-let, .is_ok() or !.is_err() -- all the same decision)
    for c in sites_of(cas):
        ok = bool(rd)
        for r in rd:
            under = False
            for b in lib.switches_on_result_of(push, c, lib.TRY_BRANCH):
                for lab, tgt in lib.arm_blocks(push, b, lambda l: l == 'Ok', F):
                    under |= push.edge_dominates(b, tgt, r.b)
            for b, arms in lib.result_test_switches(push, c):
                if arms['Ok'] != arms['Err']:
                    under |= push.edge_dominates(b, arms['Ok'], r.b)
            ok &= under
        R.ob('ONLY-UNDER', 'ONLY-UNDER::%s::evicted-slot-read-under-CAS-ok' % fnkey(push), ok,
             'the read of the evicted slot lies on the is_ok() arm of the read_position CAS', c.where, push)
    # --- pop
    ld = ord_floor(R, pop, r'^self\.write_position$', 'load', 0, 'A', 'acquires the producer\'s slot write')
    cas2 = ord_floor(R, pop, r'^self\.read_position$', 'compare_exchange(_weak)?', 1, 'A',
                     'after losing against an evicting producer the re-read slot must be visible')
    rd2 = raw(pop, 'read', at)
    dom(R, pop, sites_of(ld), rd2, 'acquire-load(write_position)<slot-read', 'slot read after publication observed')
    dom(R, pop, rd2, sites_of(cas2), 'slot-read<CAS(read_position)', 'value is taken before the slot is handed back')
    no_path(R, pop, sites_of(cas2), sites_of(cas2) + pop.ret_sites(), rd2, 'retry-re-reads-slot',
            'after a failed CAS the slot is read again before the next CAS / return', rule='LOOP') if False else None
    # after a failed CAS the loop must re-read the slot before the next CAS
    no_path(R, pop, sites_of(cas2), sites_of(cas2), rd2, 'failed-CAS-re-reads-slot-before-next-CAS',
            'a retry without re-reading the slot would return the evicted (stale) element', rule='LOOP')
    handover(F, R, SOQ)


def modulus_of_at(R, fn, expect_plus_one):
    rems = [s for s in fn.sites if s.i != 'T' and s.node[0] == 'a' and s.node[2][0] == 'bin' and s.node[2][1] == 'Rem']
    key = 'SYM-EQ::%s::slot-modulus' % fnkey(fn)
    if len(rems) != 1:
        R.ob('SYM-EQ', key, False, 'anchor-missing: expected exactly one `%%` in at(), found %d' % len(rems), fn.file, fn)
        return
    t = core.sym_norm(sym(fn, rems[0].node[2][3]))
    want = core.sym_norm(('+', ('s', 'self.capacity'), ('c', 1))) if expect_plus_one else ('s', 'self.capacity')
    R.ob('SYM-EQ', key, t == want, 'slot index = position %% %s; required %s' % (sym_nstr(t), sym_nstr(want)), rems[0].where, fn)


def alloc_counts(F, R):
    """Slot-count agreement: allocation, init loop bound, memory size and modulus."""
    # overflowing queue: capacity + 1 everywhere
    cap1 = core.sym_norm(('+', ('s', 'capacity'), ('c', 1)))
    selfcap1 = core.sym_norm(('+', ('s', 'self.capacity'), ('c', 1)))
    modulus_of_at(R, F.fn(SOQ + 'at'), True)
    modulus_of_at(R, F.fn(IQ + 'at'), False)
    for prefix, plus in ((LF + 'safely_overflowing_index_queue::details::SafelyOverflowingIndexQueue', True), (LF + 'index_queue::details::IndexQueue', False)):
        want_param = cap1 if plus else ('s', 'capacity')
        want_self = selfcap1 if plus else ('s', 'self.capacity')
        # new(): OwningPointer::new_with_alloc(n)
        news = F.find_fns('^' + core.re.escape(prefix) + r'::<iceoryx2_bb_elementary::owning_pointer::OwningPointer<.*>>::new$')
        if len(news) != 1:
            R.missing(prefix + '::new')
        else:
            f = news[0]
            cs = f.calls(r'OwningPointer::<.*>::new_with_alloc$')
            key = 'SYM-EQ::%s::heap-slots' % fnkey(f)
            if len(cs) != 1:
                R.ob('SYM-EQ', key, False, 'anchor-missing: new_with_alloc call', f.file, f)
            else:
                t = core.sym_norm(sym(f, cs[0].args[0]))
                R.ob('SYM-EQ', key, t == want_param, 'heap allocation of %s slots; required %s' % (sym_nstr(t), sym_nstr(want_param)), cs[0].where, f)
        # const_memory_size
        f = F.fn(prefix + '::<PointerType>::const_memory_size')
        cs = f.calls(r'unaligned_mem_size')
        key = 'SYM-EQ::%s::memory-size-slots' % fnkey(f)
        if len(cs) != 1:
            R.ob('SYM-EQ', key, False, 'anchor-missing: unaligned_mem_size call', f.file, f)
        else:
            t = core.sym_norm(sym(f, cs[0].args[0]))
            R.ob('SYM-EQ', key, t == want_param, 'memory size computed for %s slots; required %s' % (sym_nstr(t), sym_nstr(want_param)), cs[0].where, f)
        # init(): allocation size = size_of::<u64>() * slots
        inits = F.find_fns('^<' + core.re.escape(prefix) + r'<iceoryx2_bb_elementary::relocatable_pointer::RelocatablePointer<.*>> as iceoryx2_bb_elementary_traits::relocatable_container::RelocatableContainer>::init$')
        if len(inits) != 1:
            R.missing(prefix + ' RelocatableContainer::init')
        else:
            f = inits[0]
            cs = f.calls(r'Layout::from_size_align_unchecked$')
            key = 'SYM-EQ::%s::shm-slots' % fnkey(f)
            if len(cs) != 1:
                R.ob('SYM-EQ', key, False, 'anchor-missing: Layout::from_size_align_unchecked call', f.file, f)
            else:
                t = core.sym_norm(sym(f, cs[0].args[0]))
                # size_of::<u64>() * (slots)
                ok = False
                try:
                    p = poly(t)
                    size = [m for m in p if any('size_of' in x for x in m)]
                    # divide out the size_of symbol
                    q = {}
                    for m, c in p.items():
                        rest = tuple(x for x in m if 'size_of' not in x)
                        if len(rest) != len(m) - 1:
                            raise NotPoly('term without size_of factor')
                        q[rest] = c
                    ok = q == poly(want_self)
                    detail = 'allocation = size_of::<u64>() * (%s); required slots %s' % (poly_str(q), sym_nstr(want_self))
                except NotPoly as e:
                    detail = 'not analysable: %s' % e
                R.ob('SYM-EQ', key, ok, detail, cs[0].where, f)


def connection(F, R):
    b = F.fn(ZC + 'Builder::<\'_, Storage>::completion_queue_size') if F.fn_opt(ZC + 'Builder::<\'_, Storage>::completion_queue_size') else None
    if b is None:
        cands = F.find_fns(r'zero_copy_connection::common::details::Builder::<.*>::completion_queue_size$')
        if len(cands) != 1:
            R.missing('Builder::completion_queue_size')
            return
        b = cands[0]
    rets = [s for s in b.sites if s.i != 'T' and s.node[0] == 'a' and s.node[1] == [0]]
    key = 'POLY::%s::>=buffer+max_borrow+1' % fnkey(b)
    if len(rets) != 1:
        R.ob('POLY', key, False, 'not analysable: %d assignments to the return place' % len(rets), b.file, b)
    else:
        try:
            p = poly(sym_place(b, [0]))
            ref = {('self.buffer_size',): 1, ('self.max_borrowed_samples_per_channel',): 1, (): 1}
            R.ob('POLY', key, poly_ge(p, ref), 'completion_queue_size = %s ; reference %s (during an overflowing push the submission queue transiently holds buffer+1 offsets, all of which plus max_borrow held ones can be released before the sender reclaims)' % (poly_str(p), poly_str(ref)), rets[0].where, b)
        except NotPoly as e:
            R.ob('POLY', key, False, 'not analysable: %s' % e, b.file, b)
    cands = F.find_fns(r'zero_copy_connection::common::details::Builder::<.*>::submission_queue_size$')
    if len(cands) != 1:
        R.missing('Builder::submission_queue_size')
    else:
        s_ = cands[0]
        key = 'POLY::%s::>=buffer' % fnkey(s_)
        try:
            p = poly(sym_place(s_, [0]))
            R.ob('POLY', key, poly_ge(p, {('self.buffer_size',): 1}), 'submission_queue_size = %s ; reference self.buffer_size' % poly_str(p), '%s:%s' % (s_.file, s_.line), s_)
        except NotPoly as e:
            R.ob('POLY', key, False, 'not analysable: %s' % e, s_.file, s_)
    # Channel::new(sub, comp): parameter 0 -> submission (overflowing) queue, parameter 1 -> completion (index) queue
    ch = F.fn(ZC + 'Channel::new')
    for qpat, want, nm in ((r'SafelyOverflowingIndexQueue<.*RelocatableContainer>::new_uninit$', 'submission_queue_capacity', 'submission'),
                           (r'index_queue::details::IndexQueue<.*RelocatableContainer>::new_uninit$', 'completion_queue_capacity', 'completion')):
        cs = ch.calls(qpat)
        key = 'FLOW::%s::%s-capacity' % (fnkey(ch), nm)
        if len(cs) != 1:
            R.ob('FLOW', key, False, 'anchor-missing: new_uninit of the %s queue' % nm, ch.file, ch)
            continue
        t = sym(ch, cs[0].args[0])
        R.ob('FLOW', key, t == ('s', want), '%s queue is created with capacity `%s`; required `%s`' % (nm, sym_nstr(t), want), cs[0].where, ch)
    # const_memory_size has the same pairing
    cm = F.fn(ZC + 'Channel::const_memory_size')
    for qpat, want, nm in ((r'SafelyOverflowingIndexQueue::<.*>::const_memory_size$', 'submission_queue_capacity', 'submission'),
                           (r'index_queue::details::IndexQueue::<.*>::const_memory_size$', 'completion_queue_capacity', 'completion')):
        cs = cm.calls(qpat)
        key = 'FLOW::%s::%s-capacity' % (fnkey(cm), nm)
        if len(cs) != 1:
            R.ob('FLOW', key, False, 'anchor-missing: const_memory_size of the %s queue' % nm, cm.file, cm)
            continue
        t = sym(cm, cs[0].args[0])
        R.ob('FLOW', key, t == ('s', want), '%s queue memory is sized with `%s`; required `%s`' % (nm, sym_nstr(t), want), cs[0].where, cm)
    # create_or_open_shm passes (submission_queue_size(), completion_queue_size()) in that order
    cos = F.find_fns(r'zero_copy_connection::common::details::Builder::<.*>::create_or_open_shm$')
    if len(cos) != 1:
        R.missing('Builder::create_or_open_shm')
    else:
        f = cos[0]
        for c in F.closures_of(f) + [f]:
            for cs in c.calls(r'SharedManagementData::(init|const_memory_size)$'):
                off = 1 if cs.callee.endswith('::init') else 0
                a0 = sym(c, cs.args[off + (1 if off else 0)]) if False else None
        # argument positions checked symbolically
        checked = 0
        for c in [f] + F.closures_of(f):
            for cs in c.calls(r'SharedManagementData::const_memory_size$'):
                t0, t1 = sym_nstr(sym(c, cs.args[0])), sym_nstr(sym(c, cs.args[1]))
                ok = 'submission_queue_size' in t0 and 'completion_queue_size' in t1
                R.ob('FLOW', 'FLOW::%s::memory-size-argument-order' % fnkey(f), ok, 'const_memory_size(%s, %s, ..): submission first, completion second' % (t0, t1), cs.where, c)
                checked += 1
            for cs in c.calls(r'SharedManagementData::init$'):
                t0, t1 = sym_nstr(sym(c, cs.args[2])), sym_nstr(sym(c, cs.args[3]))
                ok = 'submission_queue_size' in t0 and 'completion_queue_size' in t1
                R.ob('FLOW', 'FLOW::%s::init-argument-order' % fnkey(f), ok, 'init(.., %s, %s, ..): submission first, completion second' % (t0, t1), cs.where, c)
                checked += 1
        R.floor('create_or_open_shm queue-size argument sites', checked, 2)


def queue_roles(F, R):
    """Which queue each connection operation uses: both queues carry u64 offsets, so a swap compiles."""
    Z = r'^<iceoryx2_cal::zero_copy_connection::common::details::%s<.*> as iceoryx2_cal::zero_copy_connection::ZeroCopy%s>::%s$'
    table = [('Sender', 'Sender', 'try_send', 'submission_queue', 'push'), ('Sender', 'Sender', 'blocking_send', 'submission_queue', 'push'),
             ('Sender', 'Sender', 'reclaim', 'completion_queue', 'pop'), ('Receiver', 'Receiver', 'receive', 'submission_queue', 'pop'),
             ('Receiver', 'Receiver', 'release', 'completion_queue', 'push')]
    n = 0
    for ty, tr, m, q, op in table:
        fs = F.find_fns(Z % (ty, tr, m))
        key = 'FLOW::zero_copy_connection::%s::%s-uses-%s.%s' % (ty, m, q, op)
        if len(fs) != 1:
            R.ob('FLOW', key, False, 'anchor-missing: %s::%s (%d bodies)' % (ty, m, len(fs)), '')
            continue
        f = fs[0]
        bodies = [f] + F.closures_of(f)
        sites = []
        for b in bodies:
            for c in b.calls(r'(index_queue|safely_overflowing_index_queue)::details::\w+::<.*>::(push|pop)$'):
                sites.append((b, c))
        if m == 'blocking_send' and not sites:
            # blocking_send retries through try_send
            ts = sum((b.calls(r'::try_send$') for b in bodies), [])
            R.ob('FLOW', key, bool(ts), 'blocking_send delivers through try_send (%d calls)' % len(ts), ts[0].where if ts else f.file, f)
            n += 1
            continue
        good = [(b, c) for (b, c) in sites if b.chain(c.args[0]).endswith('.' + q) and c.callee.endswith('::' + op)]
        other = [(b, c) for (b, c) in sites if (b, c) not in good]
        n += 1
        R.ob('FLOW', key, len(good) >= 1 and not other, '%s::%s touches %s' % (ty, m, sorted(set('%s.%s' % (b.chain(c.args[0]).rsplit('.', 1)[-1], c.callee.rsplit('::', 1)[-1]) for (b, c) in sites))), good[0][1].where if good else f.file, f)
    R.floor('connection queue-role instances', n, 5)
    # used chunk list: insert = !set(v, true), remove = set(v, false)
    U = 'iceoryx2_cal::zero_copy_connection::used_chunk_list::details::UsedChunkList::<PointerType>::'
    for m, val in (('insert', 1), ('remove', 0)):
        f = F.fn(U + m)
        cs = f.calls(r'UsedChunkList::<.*>::set$')
        ok = len(cs) == 1 and f.const_of(cs[0].args[2]) == val
        R.ob('CONST-ARG', 'CONST-ARG::%s::set-value' % fnkey(f), ok, '%s calls set(value, %s)' % (m, 'true' if val else 'false'), cs[0].where if cs else f.file, f)
    st = F.fn(U + 'set')
    sw = atomics(st, None, 'swap')
    R.ob('FLOW', 'FLOW::%s::swap-returns-previous' % fnkey(st), len(sw) == 1 and sw[0].site.dest == [0], 'set() is one atomic swap whose previous value is the result (double insert / double remove is detected)', sw[0].site.where if sw else st.file, st)


def full_empty_tests(F, R):
    """The fullness / emptiness tests use the same capacity as the slot arithmetic."""
    for prefix, nm in ((IQ, 'index_queue'), (SOQ, 'overflowing')):
        push, pop = F.fn(prefix + 'push'), F.fn(prefix + 'pop')
        eqs = [s for s in push.sites if s.i != 'T' and s.node[0] == 'a' and s.node[2][0] == 'bin' and s.node[2][1] in ('Eq', 'Ne')]   # `a == b` or its negation `a != b`: the compared terms are judged
        full = [sym_nstr(core.sym_norm((core._BIN['Eq'], sym(push, s.node[2][2]), sym(push, s.node[2][3])))) for s in eqs]
        ok = any(re.search(r'write_position', x) and re.search(r'read_position', x) and 'self.capacity' in x and '+ 1' not in x.replace('write_position + 1', '') for x in full)
        R.ob('SYM-EQ', 'SYM-EQ::%s::is_full=write==read+capacity' % fnkey(push), ok, 'fullness test(s): %s ; required write_position == read_position + capacity (exactly `capacity` elements fit)' % [x[:150] for x in full], eqs[0].where if eqs else push.file, push)
        eqs = [s for s in pop.sites if s.i != 'T' and s.node[0] == 'a' and s.node[2][0] == 'bin' and s.node[2][1] in ('Eq', 'Ne')]
        emp = [sym_nstr(core.sym_norm((core._BIN['Eq'], sym(pop, s.node[2][2]), sym(pop, s.node[2][3])))) for s in eqs]
        ok = any('write_position' in x and 'read_position' in x and '+' not in x and '-' not in x for x in emp)
        R.ob('SYM-EQ', 'SYM-EQ::%s::is_empty=read==write' % fnkey(pop), ok, 'emptiness test(s): %s ; required read_position == write_position' % [x[:150] for x in emp], eqs[0].where if eqs else pop.file, pop)



def queue_ring_index(F, R):
    """spsc::Queue<T, CAPACITY>: a cursor is turned into a slot with `position % CAPACITY` - for EVERY capacity.  A mask
    (`position & (CAPACITY - 1)`) equals the modulo only for powers of two; for capacity 3 two live cursors share slot 0 and an element is
    returned twice while another is lost (cursors, len and is_full stay right)."""
    for nm in ('push', 'pop'):
        for f in F.find_fns(r'^iceoryx2_bb_lock_free::spsc::queue::Queue::<.*>::%s$' % nm):
            rems, masks = [], []
            for g in lib.family(F, f):
                for s_ in g.sites:
                    if s_.i != 'T' and s_.node[0] == 'a' and s_.node[2][0] == 'bin' and s_.node[2][1] in ('Rem', 'BitAnd'):
                        a, b = sym_nstr(sym(g, s_.node[2][2])), sym_nstr(sym(g, s_.node[2][3]))
                        if '_position' in a + b or 'position' in a + b:
                            (rems if s_.node[2][1] == 'Rem' else masks).append((s_, a, b))
            ok = bool(rems) and all('CAPACITY' in b and '-' not in b and '+' not in b for (_, a, b) in rems) and not masks
            R.ob('SYM-EQ', 'SYM-EQ::%s::slot=position%%CAPACITY' % fnkey(f), ok, 'slot index terms: %s%s' % (['%s %% %s' % (a[:40], b) for (_, a, b) in rems], '' if not masks else ' ; masked with %s (valid only for power-of-two capacities)' % [b[:40] for (_, a, b) in masks]), (rems or masks)[0][0].where if (rems or masks) else f.file, f)

def check(F, R, tier):
    queue_ring_index(F, R)
    from . import C08
    C08.queue_capacity_roles(F, R)   # the completion queue is sized with the completion capacity (every borrowed sample can be returned)
    lib.cas_loops_fresh(R, F, r'^iceoryx2_bb_lock_free::spsc::safely_overflowing_index_queue::', 1, 'a decision computed once before the loop is stale after the first failed CAS')
    queue_roles(F, R)
    full_empty_tests(F, R)
    spsc_plain(F, R, IQ, r'IndexQueue::at')
    spsc_plain(F, R, Q, r'UnsafeCell::get|self\.data')
    overflowing(F, R)
    alloc_counts(F, R)
    connection(F, R)
    R.floor('ORD instances', sum(1 for o in R.obligations if o['rule'] == 'ORD'), 24)

LEVEL_TEXT = ("Decides, on every CFG path of the real queue code, the release/acquire ordering floors, the order of slot access "
              "versus cursor publication, slot-count agreement (allocation = modulus) and the completion-queue sizing polynomial. "
              "These are necessary conditions of FIFO conservation under the C11 model; Also: the generic queue's slot is position % CAPACITY, the two queue capacities keep their roles from the builder to Channel::new. Linearizability itself is not decided.")
LEVEL_NOTE = ("Trusted: rustc MIR + resolution; the floor table (minimal orderings argued in DESIGN.md C03). Not decided: behaviour over interleavings. "
              "A weakened ordering, a reordered slot access/publication, a changed modulus or queue size is reported with file:line.")
TECHNIQUE = "static analysis: MIR dominance + memory-ordering constant rules + symbolic size polynomials (custom rustc driver)"


def witnesses(R, tier):
    from . import witness
    return witness.run(R, 'C03', tier)
