"""C13 - connection lifecycle: role reservation dominates every successful attach, every failure after reservation un-reserves,
storage ownership taken only on MarkedForDestruction, creator releases ownership, Drop removes own role, dynamic storage
flavours implement the ownership triple on one flag."""
import re
from . import core, lib
from .core import sym, sym_nstr, sym_norm
from .lib import dom, pdom, no_path, atomics, sites_of, fnkey, const_arg

EXPLANATION = (
    "Static rules over MIR of zero_copy_connection/common.rs and the dynamic storages: DOM (reserve_port < every Ok(storage)); "
    "NO-ERR-AFTER (every error exit after a successful reserve_port passes cleanup_shared_memory: a mismatching attach must not "
    "leave its role bit set); ONLY-UNDER (acquire_ownership in cleanup_shared_memory only under remove_state == MarkedForDestruction; "
    "release_ownership in create_or_open_shm only under has_ownership and after reserve_port); CONST-ARG (Sender::drop removes "
    "State::Sender, Receiver::drop State::Receiver, remove_sender/remove_receiver pass their own role); LOOP (both refusals of "
    "reserve_port are re-evaluated before every CAS); CONST (State discriminants are pairwise disjoint bit patterns); SIBLINGS over "
    "the dynamic storage flavours (acquire/release/has_ownership on one flag). Absence of double-destroy under races is not decided.")
NOT_DECIDED = "absence of double destruction / use-after-destroy under all interleavings of attach, detach and forced removal"

ZC = 'iceoryx2_cal::zero_copy_connection::common::details::'


def removed_once(F, R):
    """One teardown removes the name of the connection's shared memory ONCE.  In iceoryx2-cal a concept object does not unlink its name
    itself when it is dropped: it sets the ownership of the posix object it wraps and that object's own Drop unlinks (under
    has_ownership()).  A second, explicit removal in a cal-level Drop leaves a window between the two unlinks in which a new port can
    create the connection afresh - the second unlink then destroys a resource a port is attached to.  The name-removal primitives are
    called only by `NamedConceptMgmt::remove_cfg` (forced removal by name) and by the posix objects themselves."""
    n = 0
    for s_ in F.callers_of(r'^iceoryx2_bb_posix::shared_memory::SharedMemory::remove$|^iceoryx2_bb_posix::file::File::remove$'):
        g = s_.fn
        if g.crate != 'iceoryx2_cal':
            continue
        n += 1
        root = g
        while root.kind == 'closure' and root.parent and F.fn_opt(root.parent) is not None:
            root = F.fn_opt(root.parent)
        in_drop = bool(re.search(r' as core::ops::drop::Drop>::drop$', root.id))
        R.ob('WHO-MAY-CALL', 'WHO-MAY-CALL::%s::explicit-name-removal-not-in-Drop' % fnkey(g), not in_drop, '%s is called from %s; a Drop of an iceoryx2-cal concept leaves the unlink to the owned posix object (ownership flag), forced removal goes through remove_cfg' % (core.short(s_.callee), 'a Drop implementation' if in_drop else root.id.rsplit('::', 1)[-1]), s_.where, g)
    R.floor('explicit name removals in iceoryx2-cal', n, 4)
    # the posix shared memory itself unlinks in exactly one place of its Drop, under has_ownership()
    d = F.find_fns(r'^<iceoryx2_bb_posix::shared_memory::SharedMemory as core::ops::drop::Drop>::drop$')
    if len(d) != 1:
        R.missing('Drop for posix SharedMemory')
    else:
        rm = d[0].calls(r'SharedMemory::remove$')
        conds = lib.path_conds(d[0], rm[0], F) if rm else []
        R.ob('ONLY-UNDER', 'ONLY-UNDER::%s::unlink-once-under-ownership' % fnkey(d[0]), len(rm) == 1 and any('has_ownership' in c and not c.startswith('!') for c in conds), 'SharedMemory::drop unlinks at %d site(s), guarded by %s' % (len(rm), [c[:60] for c in conds][:3]), rm[0].where if rm else d[0].file, d[0])


def check(F, R, tier):
    removed_once(F, R)
    cands = F.find_fns(r'^' + re.escape(ZC) + r'Builder::<.*>::create_or_open_shm$')
    if len(cands) != 1:
        R.missing('Builder::create_or_open_shm')
        return
    f = cands[0]
    rp = f.calls(r'SharedManagementData::reserve_port$')
    cu = f.calls(r'details::cleanup_shared_memory$')
    oks = f.ok_exit_sites()
    dom(R, f, rp, oks, 'reserve_port<Ok(storage)', 'a connection handle exists only with a reserved role')
    # error exits after a successful reservation
    # refusal sources: every `Err(..)` that is built in the body (also in the body of a helper that was extracted from it and is
    # presented inlined) and every `?` that forwards the error of a call
    errs = [s_ for s_ in f.sites if s_.i != 'T' and s_.node[0] == 'a' and s_.node[2][0] == 'agg' and s_.node[2][1][0] == 'adt' and s_.node[2][1][1] == 'core::result::Result' and s_.node[2][1][2] == 'Err']
    errs += [e for e in f.err_exit_sites() if e.is_call]
    n = 0
    for e in errs:
        if not rp or not f.dominates(rp[0], e):
            continue
        if e.is_call and e.args:
            r = f.prov_operand(e.args[0]).root
            if not (r[0] == 'call' and r[1].args and re.search(r'::branch$', r[1].callee or '')):
                continue
            r2 = f.prov_operand(r[1].args[0]).root
            # the `?` on reserve_port's own result; a `?` on a locally built result is judged where its Err is built
            if r2[0] != 'call' or r2[1].key() == rp[0].key():
                continue
        n += 1
        variant = None
        if e.i != 'T':
            ev = f.enum_variant_of(e.node[2][2][0]) if e.node[2][0] == 'agg' else None
            variant = ev[1] if ev else None
        pth = f.exists_path(rp[0], [e], cu)
        R.ob('NO-ERR-AFTER', 'NO-ERR-AFTER::%s::un-reserve-before-Err(%s)' % (fnkey(f), variant), pth is None,
             'the %s refusal is reached only through cleanup_shared_memory (otherwise the role bit stays set for ever)%s' % (variant, '' if pth is None else ' -- path %s' % pth), e.where, f)
    R.floor('parameter-mismatch refusals after reserve_port', n, 6)
    for c in cu:
        t = sym_nstr(sym(f, c.args[1]))
        R.ob('FLOW', 'FLOW::%s::cleanup-removes-the-reserved-role' % fnkey(f), lib.param_is(f, lib.arg(F, c, 'state_to_remove', 1, r'details::State$'), 'port_to_register', 2), 'cleanup_shared_memory(.., %s); required the role that was reserved (port_to_register)' % t, c.where, f)
    for c in rp:
        t = sym_nstr(sym(f, c.args[1]))
        R.ob('FLOW', 'FLOW::%s::reserves-the-requested-role' % fnkey(f), lib.has_origin(f, c.args[1], None, ('port_to_register', 2)), 'reserve_port(%s)' % t, c.where, f)
    ro = f.calls(r'DynamicStorage.*::release_ownership$')
    ho = f.calls(r'DynamicStorage.*::has_ownership$')
    dom(R, f, rp, ro, 'reserve_port<release_ownership', 'the creator hands the storage to "whoever leaves last" only once it is attached itself')
    for r_ in ro:
        ok = False
        for h in ho:
            for b in range(len(f.blocks)):
                t = f.blocks[b]['t']
                if t[0] == 'switch':
                    p = f.prov_operand(t[1])
                    if p.root[0] == 'call' and p.root[1].key() == h.key():
                        tt, ff = lib.bool_switch_arms(f, b)
                        if f.edge_dominates(b, tt, r_.b):
                            ok = True
        R.ob('ONLY-UNDER', 'ONLY-UNDER::%s::release_ownership-under-has_ownership' % fnkey(f), ok, 'only the creator releases ownership', r_.where, f)
    R.floor('release_ownership in create_or_open_shm', len(ro), 1)
    # ---- cleanup_shared_memory
    c = F.fn(ZC + 'cleanup_shared_memory')
    rs = c.calls(r'SharedManagementData::remove_state$')
    ao = c.calls(r'DynamicStorage.*::acquire_ownership$')
    R.exact('acquire_ownership in cleanup_shared_memory', len(ao), 1)
    for a in ao:
        conds = lib.path_conds(c, a, F)
        ok = any('remove_state' in x and 'MarkedForDestruction' in x and ' == ' in x for x in conds)
        R.ob('ONLY-UNDER', 'ONLY-UNDER::%s::acquire_ownership-under-MarkedForDestruction' % fnkey(c), ok, 'acquire_ownership guarded by %s; required remove_state(..) == State::MarkedForDestruction.value()' % conds, a.where, c)
    for r_ in rs:
        t = sym_nstr(sym(c, r_.args[1]))
        R.ob('FLOW', 'FLOW::%s::removes-the-given-role' % fnkey(c), (c.prov_operand(r_.args[1]).root[0] == 'arg' and c.prov_operand(r_.args[1]).root[1] == lib.param_index_ty(c, 'state_to_remove', 2, r'details::State$') and not [q for q in c.prov_operand(r_.args[1]).path if q != '*']), 'remove_state(%s)' % t, r_.where, c)
    # ---- Drop / forced removal pass their own role
    for ty, role in (('Sender', 'Sender'), ('Receiver', 'Receiver')):
        ds = F.find_fns(r'^<' + re.escape(ZC) + ty + r'<.*> as core::ops::drop::Drop>::drop$')
        if len(ds) != 1:
            R.missing('Drop for zero_copy_connection %s' % ty)
            continue
        d = ds[0]
        cs = d.calls(r'details::cleanup_shared_memory$')
        ok_ = len(cs) == 1 and d.exists_path(None, d.ret_sites(), cs, from_entry=True) is None
        how = 'through cleanup_shared_memory'
        if not cs:
            # the body of cleanup_shared_memory written out in the Drop: remove_state(own role) on every path, ownership taken only when
            # the result says MarkedForDestruction
            rs_ = d.calls(r'SharedManagementData::remove_state$')
            ao_ = d.calls(r'DynamicStorage.*::acquire_ownership$')
            ok_ = len(rs_) == 1 and d.exists_path(None, d.ret_sites(), rs_, from_entry=True) is None and d.const_of(rs_[0].args[1]) == role and \
                all(any('remove_state' in c_ and 'MarkedForDestruction' in c_ and ' == ' in c_ for c_ in lib.path_conds(d, a_, F)) for a_ in ao_) and bool(ao_)
            how = 'remove_state(%s) + acquire_ownership under == MarkedForDestruction, written out' % role
        R.ob('MUST-CALL', 'MUST-CALL::%s::cleanup_shared_memory' % fnkey(d), ok_, 'Drop detaches on every path (%s)' % how, d.file + ':%s' % d.line, d)
        for x in cs:
            const_arg(R, d, x, lib.argi(F, x, 'state_to_remove', 1, r'details::State$'), {role}, 'own-role', 'a %s removes the %s bit' % (ty, role))
    for nm, role in (('remove_sender', 'Sender'), ('remove_receiver', 'Receiver')):
        fs = F.find_fns(r'^<' + re.escape(ZC) + r'Connection<.*> as iceoryx2_cal::zero_copy_connection::ZeroCopyConnection>::' + nm + '$')
        if len(fs) != 1:
            R.missing(nm)
            continue
        g = fs[0]
        cs = g.calls(r'Connection::<.*>::remove_port$')
        for x in cs:
            const_arg(R, g, x, 3, {role}, 'own-role', '%s removes the %s bit' % (nm, role))
        R.ob('FLOOR', 'floor::%s::remove_port call' % fnkey(g), len(cs) == 1, '%d remove_port calls' % len(cs), g.file, g)
    rps = F.find_fns(r'^' + re.escape(ZC) + r'Connection::<.*>::remove_port$')
    if len(rps) == 1:
        g = rps[0]
        stc = [a for a in atomics(g, r'state$', 'store')]
        cs = g.calls(r'details::cleanup_shared_memory$')
        it = g.calls(r'::iter$|IntoIterator.*::into_iter$')
        ok = bool(stc) and bool(cs) and any(g.dominates(i, cs[0]) for i in it) and all(any(g.dominates(i, s.site) for i in it) for s in stc) and \
            all(g.exists_path(cs[0], [s.site], []) is None for s in stc)
        R.ob('DOM', 'DOM::%s::close-all-channels<cleanup' % fnkey(g), ok, 'the channel-closing loop precedes cleanup_shared_memory (the survivor observes the disconnect before the role vanishes)', cs[0].where if cs else g.file, g)
        for s in stc:
            t_ = sym_nstr(sym(g, s.site.args[1]))
            R.ob('CONST-ARG', 'CONST-ARG::%s::channel-state=CLOSED' % fnkey(g), 'CHANNEL_STATE_CLOSED' in t_, 'channel state stored: %s' % t_, s.site.where, g)
        for x in cs:
            R.ob('FLOW', 'FLOW::%s::removes-the-given-role' % fnkey(g), lib.param_is(g, lib.arg(F, x, 'state_to_remove', 1, r'details::State$'), 'port', 4), 'cleanup_shared_memory(.., %s)' % sym_nstr(sym(g, lib.arg(F, x, 'state_to_remove', 1, r'details::State$'))), x.where, g)
    else:
        R.missing('Connection::remove_port')
    # ---- reserve_port / remove_state
    rpf = F.fn(ZC + 'SharedManagementData::reserve_port')
    cas = atomics(rpf, r'^self\.state$', 'compare_exchange(_weak)?')
    for nm in ('AnotherInstanceIsAlreadyConnected', 'IsBeingCleanedUp'):
        errs = lib.agg_sites(rpf, r'ZeroCopyCreationError$', nm)
        key = 'LOOP::%s::%s-test-before-every-CAS' % (fnkey(rpf), nm)
        if not errs or not cas:
            R.ob('LOOP', key, False, 'anchor-missing', rpf.file, rpf)
            continue
        gs = lib.guard_switches(rpf, errs[0])
        if not gs:
            R.ob('LOOP', key, False, 'no guarding test', errs[0].where, rpf)
            continue
        g = rpf.term_site(gs[0][0])
        p = rpf.exists_path(cas[0].site, sites_of(cas), [g])
        cond = sym_nstr(sym(rpf, rpf.blocks[gs[0][0]]['t'][1]))
        R.ob('LOOP', key, all(rpf.dominates(g, c.site) for c in cas) and p is None, 'the refusal test `%s` dominates the role CAS and is re-evaluated after a failed CAS' % cond, g.where, rpf)
    for c in cas:
        t = sym_nstr(sym(rpf, c.site.args[2]))
        R.ob('SYM-EQ', 'SYM-EQ::%s::CAS-new=current|new_state' % fnkey(rpf), '|' in t and lib.has_origin(rpf, c.site.args[2], None, ('new_state', 2)), 'CAS installs `%s`' % t, c.site.where, rpf)
    rsf = F.fn(ZC + 'SharedManagementData::remove_state')
    cas = atomics(rsf, r'^self\.state$', 'compare_exchange(_weak)?')
    for c in cas:
        t = sym_nstr(sym(rsf, c.site.args[2]))
        R.ob('FLOW', 'FLOW::%s::new-state-is-phi(MarkedForDestruction | current&!role)' % fnkey(rsf), t.startswith('phi'), 'CAS new value `%s` is chosen per iteration' % t, c.site.where, rsf)
    for (fn_, cs_) in ((rpf, atomics(rpf, r'^self\.state$', 'compare_exchange(_weak)?')), (rsf, cas)):
        for c in cs_:
            r_ = lib.cas_loop_fresh(R, fn_, c.site, 'LOOP::%s::decision-recomputed-per-iteration' % fnkey(fn_), 'the last-role / already-connected decision must be taken on the value the CAS compares against (a peer may attach or detach between the load and the CAS)')
            if r_ is None:
                R.ob('LOOP', 'LOOP::%s::decision-recomputed-per-iteration' % fnkey(fn_), False, 'anchor-missing: the role CAS is not inside a retry loop', c.site.where, fn_)
    # the role word is changed only by compare_exchange (attach and detach are read-modify-write on one word shared by both sides):
    # a plain store / swap / fetch_* in these functions loses the peer's concurrent reservation
    for fn_ in (rpf, rsf):
        others = [a for a in fn_.atomic_ops() if re.search(r'^self\.state$', a.recv) and a.op not in ('load',) and not a.op.startswith('compare_exchange')]
        R.ob('WHO-MAY-CALL', 'WHO-MAY-CALL::%s::role-word-changed-only-by-CAS' % fnkey(fn_), not others, 'self.state is modified only through compare_exchange (%d other modifying atomic op(s): %s)' % (len(others), [a.op for a in others]), others[0].site.where if others else '%s:%s' % (fn_.file, fn_.line), fn_)
    mfd = [s for s in rsf.sites if s.is_call and (s.callee or '').endswith('State::value') and rsf.enum_variant_of(s.args[0]) is None]
    # MarkedForDestruction is chosen exactly under current == state_to_remove
    sites = [s for s in rsf.sites if s.i != 'T' and s.node[0] == 'a' and s.node[2][0] == 'agg' and s.node[2][1][0] == 'adt' and s.node[2][1][1].endswith('::State') and s.node[2][1][2] == 'MarkedForDestruction']
    promoted = lib.const_sites(rsf, r'MarkedForDestruction')
    ok = False
    detail = 'no use of State::MarkedForDestruction found inside the loop'
    for s in sites + promoted:
        conds = lib.path_conds(rsf, s, F)
        if any('state_to_remove' in x and ' == ' in x for x in conds):
            ok = True
            detail = 'MarkedForDestruction selected under %s' % [x for x in conds if 'state_to_remove' in x]
    R.ob('ONLY-UNDER', 'ONLY-UNDER::%s::MarkedForDestruction-iff-last-role' % fnkey(rsf), ok, detail + ' ; required current_state == state_to_remove.value()', rsf.file + ':%s' % rsf.line, rsf)
    # ---- State discriminants
    st = F.adt(ZC + 'State')
    vals = {v['name']: v['discr'] for v in st['variants']}
    nz = [v for k, v in vals.items() if v]
    disjoint = all(a & b == 0 for i, a in enumerate(nz) for b in nz[i + 1:])
    R.ob('CONST', 'CONST::%sState::disjoint-bits' % ZC, disjoint and vals.get('None') == 0 and len(vals) == 4, 'State discriminants %s: pairwise disjoint bit patterns' % vals, '%s:%s' % (st['file'], st['line']))
    # ---- dynamic storage flavours
    n = 0
    for flavour in ('posix_shared_memory', 'process_local', 'file'):
        for m in ('acquire_ownership', 'release_ownership', 'has_ownership'):
            fs = F.find_fns(r'^<iceoryx2_cal::dynamic_storage::%s::Storage<.*> as iceoryx2_cal::dynamic_storage::DynamicStorage<.*>>::%s$' % (flavour, m))
            if flavour == 'file' and not fs:
                continue
            key = 'SIBLINGS::dynamic_storage::%s::%s' % (flavour, m)
            if len(fs) != 1:
                R.ob('SIBLINGS', key, False, 'anchor-missing (%d bodies)' % len(fs), flavour)
                continue
            n += 1
            g = fs[0]
            # the method touches exactly one ownership flag (atomic or delegated call)
            touched = set()
            for a in g.atomic_ops():
                touched.add(('atomic', a.recv, a.op, tuple(a.ords[:0])))
            for s in g.sites:
                if s.is_call and s.callee and re.search(r'::(%s)$' % m, s.callee) and s.callee != g.id:
                    touched.add(('delegate', g.chain(s.args[0])))
            R.ob('SIBLINGS', key, len(touched) == 1, '%s touches %s' % (m, sorted(map(str, touched))), '%s:%s' % (g.file, g.line), g)
            for a in g.atomic_ops():
                if a.op == 'store':
                    v = g.const_of(a.site.args[1])
                    want = 1 if m == 'acquire_ownership' else 0
                    R.ob('CONST-ARG', key + '::flag-value', v == want, '%s stores %r into the ownership flag; required %d' % (m, v, want), a.site.where, g)
    R.floor('dynamic storage ownership methods', n, 6)


LEVEL_TEXT = ("Decides on all CFG paths: reservation before success, un-reservation on every refusal after it, ownership hand-over discipline "
              "(release by the creator only, acquisition only by the last leaver), own-role constants in Drop/forced removal, loop re-checks in "
              "reserve_port and the disjointness of the role bits. Necessary conditions; Also: a teardown unlinks the name once (no explicit removal in cal-level Drop impls). Races between attach and teardown are not decided.")
LEVEL_NOTE = "Trusted: rustc MIR. Not decided: behaviour under interleavings."
TECHNIQUE = "static analysis: no-error-after-effect path rule, only-under-arm rules, constant-argument rules, enum discriminant check, sibling cross-check"
