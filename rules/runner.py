"""Runs one property's rule table and writes the evidence file."""
import importlib, json, os, time, random, sys
from . import core

ASSUMPTIONS = [
    "rustc nightly 1.97: MIR construction (mir-opt-level=0), type and trait resolution are trusted",
    "the analysed universe is `cargo check --lib` of the product crates on Linux with default features (thorough: + the no_std universe `--no-default-features` for the 13 Rust crates, + dev_permissions for C04/C06/C07); cfg(windows/macos/qnx) code, the Python binding and C++ headers are outside",
    "unwind edges are excluded from path rules (a panic aborts the protocol) and included in Drop must-call rules",
    "the pass-through callee table used by provenance (rules/core.py PASS_THROUGH) and the exception tables of the rule module, each row with a reason",
    "the decided clause is a necessary structural condition of the property, not the behavioural statement itself (see level_note / DESIGN.md)",
]


def run(pid, tier, seed, ensure_facts, known, ev_path, rep_path, t0, ensure_mutant_facts=None):
    mod = importlib.import_module('rules.' + pid)
    fdir, hsh, extracted, _log = ensure_facts('default')
    F = core.Facts(fdir)
    R = core.Report(pid)
    R.tier = tier
    R.facts_hash = hsh
    universes = ['default']
    try:
        mod.check(F, R, tier)
    except core.AnchorMissing as e:
        R.missing(str(e))
    extra = {}
    if tier == 'thorough':
        # second cfg universe the repository itself builds
        # further cfg universes the repository itself builds: no_std (--no-default-features: own spin locks / atomics in the pal layer)
        # for every property but the C binding's, dev_permissions where permissions matter
        for u in getattr(mod, 'THOROUGH_UNIVERSES', ['no_std']):
            if True:
                fdir2, _, _, _ = ensure_facts(u)
                F2 = core.Facts(fdir2)
                R2 = core.Report(pid)
                R2.tier = tier
                try:
                    mod.check(F2, R2, tier)
                except core.AnchorMissing as e:
                    R2.missing(str(e))
                for o in R2.obligations:
                    o = dict(o)
                    o['key'] = o['key']
                    o['universe'] = u
                    R.obligations.append(o)
                R.functions |= R2.functions
                universes.append(u)
        if hasattr(mod, 'thorough'):
            try:
                extra = mod.thorough(F, R) or {}
            except core.AnchorMissing as e:
                R.missing(str(e))
    if tier == 'thorough' and ensure_mutant_facts is not None:
        # rule self-test (both-ways test of the machinery): the rules must fire on the registered seeded mutant; the result is
        # reported in the evidence and never influences the verdict on /repo
        exp_path = os.path.join(os.path.dirname(os.path.dirname(os.path.abspath(__file__))), 'mutants', 'M1.expect.json')
        st = {'mutant': 'mutants/M1.diff'}
        try:
            expect = json.load(open(exp_path)).get(pid, [])
            mdir, note = ensure_mutant_facts('M1')
            st['facts'] = note
            if mdir is None:
                st['status'] = note
            else:
                Fm = core.Facts(mdir)
                Rm = core.Report(pid)
                Rm.tier = tier
                try:
                    mod.check(Fm, Rm, tier)
                except core.AnchorMissing as e:
                    Rm.missing(str(e))
                fired = sorted(set(o['key'] for o in Rm.violations()))
                import re as _re
                hit = [e for e in expect if any(_re.search(e, k) for k in fired)]
                st['rules_expected_to_fire'] = expect
                st['rules_fired_on_mutant'] = fired
                st['status'] = 'ok' if len(hit) == len(expect) and expect else ('MISSED: %s' % [e for e in expect if e not in hit])
        except Exception as e:   # never affects the verdict
            st['status'] = 'selftest-error: %s' % e
        extra['rule_selftest'] = st
        print('%s: rule self-test on mutant M1: %s' % (pid, st.get('status')))
    if hasattr(mod, 'witnesses'):
        w = mod.witnesses(R, tier)
        if w:
            extra['witnesses'] = w

    # ------------------------------------------------------------ verdict
    known_keys = {k['key']: k for k in known.get('findings', []) if k.get('property') == pid}
    viols = R.violations()
    # de-duplicate by key (same obligation in several universes)
    seen = set()
    real = []
    knownhits = []
    for v in viols:
        if v['key'] in seen:
            continue
        seen.add(v['key'])
        if v['key'] in known_keys:
            knownhits.append(v)
        else:
            real.append(v)
    lines = []
    for v in knownhits:
        print('KNOWN-FINDING: property=%s %s :: %s' % (pid, v['key'], known_keys[v['key']].get('what', v['detail'])))
    with open(rep_path, 'w') as f:
        f.write('property %s tier=%s facts=%s\n' % (pid, tier, hsh))
        f.write('obligations=%d violated=%d known=%d\n\n' % (len(R.obligations), len(real), len(knownhits)))
        for v in real:
            f.write('VIOLATION %s\n  rule: %s\n  where: %s\n  detail: %s\n\n' % (v['key'], v['rule'], v['where'], v['detail']))
        for v in knownhits:
            f.write('KNOWN %s\n  where: %s\n  detail: %s\n\n' % (v['key'], v['where'], v['detail']))
        f.write('--- all obligations ---\n')
        for o in R.obligations:
            f.write('%s %s [%s] %s %s\n' % ('ok  ' if o['ok'] else 'FAIL', o['key'], o['rule'], o['where'], o['detail']))
    obligations = len(R.obligations)
    discharged = sum(1 for o in R.obligations if o['ok'])
    keys = set(o['key'] for o in R.obligations)
    nontrivial = set(o['key'] for o in R.obligations if o['rule'] not in ('FLOOR', 'COUNT', 'ANCHOR') and o.get('where'))
    rnd = random.Random(seed)
    pool = [o for o in R.obligations if o['rule'] not in ('FLOOR', 'COUNT')]
    # one sample per rule kind first, then random fill
    samples = []
    byrule = {}
    for o in pool:
        byrule.setdefault(o['rule'], o)
    samples.extend(byrule.values())
    rest = [o for o in pool if o not in samples]
    rnd.shuffle(rest)
    samples.extend(rest[:max(0, 12 - len(samples))])
    rules_applied = sorted(set(o['rule'] for o in R.obligations))
    cov = {
        'explanation': getattr(mod, 'EXPLANATION', mod.__doc__ or ''),
        'obligations': obligations,
        'discharged': discharged,
        'evaluations': obligations,
        'distinct_nontrivial': len(nontrivial),
        'rule': 'one evaluation per rule instance (anchor resolved in the MIR/type facts of the current tree); '
                'non-trivial = instance bound to at least one concrete MIR site / type / impl (has a location), '
                'distinct by instance key; floors and counts are listed but not counted as non-trivial',
        'rules_applied': rules_applied,
        'samples': [{'rule': o['rule'], 'instance': o['key'], 'site': o['where'], 'fact': o['detail'], 'holds': o['ok']} for o in samples],
        'functions_analysed': len(R.functions),
        'functions': sorted(R.functions)[:400],
        'bodies_loaded': len(F.fn_list),
        'crates': F.crates,
        'universes': universes,
        'facts_hash': hsh,
        'facts_extracted_this_run': extracted,
        'floors': R.floors,
        'known_findings_hit': [v['key'] for v in knownhits],
        'checker_cmd': './check %s%s' % (pid, ' --thorough' if tier == 'thorough' else ''),
        'trusted_base': ['rustc nightly MIR + trait resolution', 'rules/core.py', 'rules/%s.py tables' % pid],
        'exhaustive': True,
        'not_decided': getattr(mod, 'NOT_DECIDED', ''),
    }
    cov.update(extra)
    ev = {
        'property_id': pid,
        'tier': tier,
        'seed': seed,
        'level': 'other',
        'coverage': cov,
        'assumptions': ASSUMPTIONS + list(getattr(mod, 'ASSUMPTIONS', [])),
        'wall_s': round(time.time() - t0, 2),
        'violations': len(real),
    }
    with open(ev_path, 'w') as f:
        json.dump(ev, f, indent=1)
    print('%s: %d obligations, %d hold, %d violated (%d known findings), %d functions, facts %s%s' % (
        pid, obligations, discharged, len(real), len(knownhits), len(R.functions), hsh, ' (extracted now)' if extracted else ''))
    if real:
        for v in real[:20]:
            print('  FAIL %s @ %s :: %s' % (v['key'], v['where'], v['detail']))
        print('VIOLATION property=%s replay=%s' % (pid, rep_path))
        return 1
    return 0
