"""C02 - zero-copy sample lifetime: borrow/release pairing on every path that moves a reference (deliver, overflow, history,
loan return, connection removal, sample drop); deallocation only on the last reference."""
import re
from . import core, lib
from .core import sym, sym_nstr
from .lib import dom, pdom, no_path, atomics, sites_of, fnkey, const_arg, agg_sites

EXPLANATION = (
    "Static rules over MIR: conservation of the per-chunk reference count over every code path that moves a reference. "
    "SIBLINGS over all call sites of ZeroCopySender::try_send/blocking_send in crate iceoryx2: on the Ok arm borrow_chunk(offset "
    "just sent) is called, the Some(old) overflow payload flows to release_chunk, no borrow_chunk is reachable on an Err arm; "
    "WHO-MAY-CALL pins the set of sending functions; PAIR in add_sample_to_history, allocate/return_loaned_chunk; ONLY-UNDER "
    "deallocate_bucket under untrack_chunk(..) == 1; CONST-ARG the counter steps by exactly 1 on one indexed counter; FLOW every "
    "reclaimed offset reaches release_chunk, remove_connection releases everything the vanished receiver owned and only then clears "
    "the slot; MUST-CALL in the Drop impls of Sample/Response/ActiveRequest/loaned chunks. The value of the count after an "
    "arbitrary history is not decided.")
NOT_DECIDED = "that the reference count is right after an arbitrary history; that payload bytes are unchanged while held"

S = 'iceoryx2::port::details::sender::Sender::<Service, Resource>::'
SEND_RE = r'ZeroCopySender.*::(try_send|blocking_send)$'


def result_switches(fn, call_pat):
    """(switch block, send call sites) for every switch on the discriminant of a Result produced by calls matching call_pat
    (directly or through a multi-definition local all of whose definitions are such calls)."""
    rx = re.compile(call_pat)
    out = []
    for b in range(len(fn.blocks)):
        si = fn.switch_info(b)
        if not si or 'discr_of' not in si or not (si.get('enum_ty') or '').startswith('core::result::Result'):
            continue
        pl = si['discr_of']
        if len(pl) != 1:
            continue
        p = fn.prov_place(pl)
        calls = []
        if p.root[0] == 'call':
            calls = [p.root[1]]
        elif p.root[0] in ('var', 'multi'):
            local = p.root[2] if p.root[0] == 'var' else p.root[1]
            for kind, site in fn.defs.get(local, []):
                if kind == 'call':
                    calls.append(site)
                elif kind == 'assign' and site.node[2][0] == 'use' and site.node[2][1][0] in ('c', 'm'):
                    q = fn.prov_operand(site.node[2][1])
                    if q.root[0] == 'call':
                        calls.append(q.root[1])
                    else:
                        calls.append(None)
                else:
                    calls.append(None)
        if calls and all(c is not None and rx.search(c.callee or '') or (c is not None and rx.search(c.callee_orig or '')) for c in calls):
            out.append((b, calls, pl[0]))
    return out


def send_sites(F, R):
    allowed = {
        'iceoryx2::port::details::sender::Sender::deliver_offset_to_connection_impl',
        'iceoryx2::port::publisher::PublisherSharedState::deliver_sample_history',
    }
    callers = {}
    for s in F.callers_of(SEND_RE):
        if s.fn.crate != 'iceoryx2':
            continue
        callers.setdefault(core.strip_generics(s.fn.id), []).append(s)
    for k, ss in callers.items():
        R.ob('WHO-MAY-CALL', 'WHO-MAY-CALL::try_send/blocking_send::%s' % k, k in allowed, '%d send call(s); a sending function outside the audited set is a new leak/reuse path (allowed: %s)' % (len(ss), sorted(x.rsplit('::', 1)[-1] for x in allowed)), ss[0].where, ss[0].fn)
    R.floor('sending functions', len(callers), 2)
    for k, ss in callers.items():
        f = ss[0].fn
        sws = result_switches(f, SEND_RE)
        key = 'PAIR::%s::' % k
        if not sws:
            R.ob('PAIR', key + 'match-on-send-result', False, 'no match on the result of the send call found', ss[0].where, f)
            continue
        covered = set()
        for b, calls, local in sws:
            covered |= set(c.key() for c in calls)
            ok_arm = lib.arm_blocks(f, b, lambda l: l == 'Ok', F)
            err_arm = lib.arm_blocks(f, b, lambda l: l == 'Err', F)
            borrows = f.calls(r'Sender::<.*>::borrow_chunk$')
            rels = f.calls(r'Sender::<.*>::release_chunk$')
            b_ok = [x for x in borrows if any(f.edge_dominates(b, t, x.b) for _, t in ok_arm)]
            R.ob('PAIR', key + 'borrow-on-Ok', len(b_ok) >= 1, 'on the Ok arm of the send result borrow_chunk is called (%d site(s))' % len(b_ok), f.term_site(b).where, f)
            for x in b_ok:
                # the borrowed offset is the one that was sent
                sent = set(sym_nstr(sym(f, c.args[1])) for c in calls)
                t = sym_nstr(sym(f, x.args[1]))
                R.ob('FLOW', key + 'borrows-the-sent-offset', t in sent, 'borrow_chunk(%s); sent offset(s) %s' % (t, sorted(sent)), x.where, f)
                # every path from the Ok arm entry to a return / loop back passes the borrow
            for _, t in ok_arm:
                pth = f.exists_path(core.Site(f, t, -1, ['arm']), f.ret_sites() + [f.term_site(b)], b_ok)
                R.ob('PAIR', key + 'Ok-arm-always-borrows', pth is None, 'every path through the Ok arm passes borrow_chunk%s' % ('' if pth is None else ' -- bypass %s' % pth), f.term_site(b).where, f)
            # borrow never on an Err arm
            bad = [x for x in borrows if any(f.edge_dominates(b, t, x.b) for _, t in err_arm)]
            R.ob('PAIR', key + 'no-borrow-on-Err', not bad, 'no borrow_chunk on an Err arm of the send result (%d found)' % len(bad), f.term_site(b).where, f)
            # overflow payload -> release_chunk
            r_ok = [x for x in rels if any(f.edge_dominates(b, t, x.b) for _, t in ok_arm)]
            good = False
            detail = 'no release_chunk on the Ok arm'
            for x in r_ok:
                p = f.prov_operand(x.args[1])
                rootl = p.root[2] if p.root[0] == 'var' else (p.root[1] if p.root[0] in ('multi', 'local') else None)
                detail = 'release_chunk(%s) path=%s' % (p.render(), p.path)
                if ('as:Ok' in p.path and 'as:Some' in p.path) or (p.root[0] == 'var' and any(re.search(SEND_RE, o_) for o_ in lib.origins(f, x.args[1]))):
                    good = True
            R.ob('FLOW', key + 'evicted-offset-released', good, 'the Some(old) payload of the send result flows to release_chunk (%s)' % detail, r_ok[0].where if r_ok else f.term_site(b).where, f)
        for s in ss:
            R.ob('PAIR', key + 'send-result-matched', s.key() in covered, 'the result of this send call is matched with the borrow/release pairing', s.where, f)
    # retrieve_returned_chunks precedes every send (completion queue drained before a push: "a release never fails for lack of space")
    impl = F.fn(S + 'deliver_offset_to_connection_impl')
    for wrapper in ('deliver_offset', 'deliver_offset_to_connection'):
        w = F.fn(S + wrapper)
        dom(R, w, w.calls(r'::retrieve_returned_chunks$'), w.calls(r'::deliver_offset_to_connection_impl$'), 'retrieve_returned_chunks<deliver', 'the completion queue is drained before each push')
    callers_impl = set(core.strip_generics(s.fn.id) for s in F.callers_of(r'Sender::<.*>::deliver_offset_to_connection_impl$'))
    R.ob('WHO-MAY-CALL', 'WHO-MAY-CALL::deliver_offset_to_connection_impl', callers_impl == {core.strip_generics(S + 'deliver_offset'), core.strip_generics(S + 'deliver_offset_to_connection')}, 'callers: %s' % sorted(x.rsplit('::', 1)[-1] for x in callers_impl), impl.file, impl)
    hist = [f for f in F.find_fns(r'^iceoryx2::port::publisher::PublisherSharedState::<.*>::deliver_sample_history$')]
    for h in hist:
        sends = h.calls(SEND_RE)
        rr = h.calls(r'::retrieve_returned_chunks$')
        for s in sends:
            pth = h.exists_path(s, [s], rr)
            R.ob('LOOP', 'LOOP::%s::retrieve-before-every-history-send' % fnkey(h), pth is None and bool(rr) and any(h.dominates(r_, s) for r_ in rr), 'inside the history loop the completion queue is drained before every try_send', s.where, h)


def history(F, R):
    hs = F.find_fns(r'^iceoryx2::port::publisher::PublisherSharedState::<.*>::add_sample_to_history$')
    if len(hs) != 1:
        R.missing('add_sample_to_history')
        return
    f = hs[0]
    bo = f.calls(r'Sender::<.*>::borrow_chunk$')
    pu = f.calls(r'::push_with_overflow$')
    rl = f.calls(r'Sender::<.*>::release_chunk$')
    dom(R, f, bo, pu, 'borrow_chunk<push_with_overflow', 'the history holds a counted reference')
    if pu:
        lib.only_under(R, f, F, rl, pu[0], {'Some'}, 'release-evicted-under-Some', 'the evicted history entry gives its reference back')
        for x in rl:
            t = sym_nstr(sym(f, x.args[1]))
            R.ob('FLOW', 'FLOW::%s::released-offset-is-the-evicted-one' % fnkey(f), lib.has_origin(f, x.args[1], r'::push_with_overflow$'), 'release_chunk(%s)' % t, x.where, f)
        for _ in [0]:
            pth = None
            for b in lib.switches_on_result_of(f, pu[0]):
                for lab, t in lib.arm_blocks(f, b, lambda l: l == 'Some', F):
                    pth = f.exists_path(core.Site(f, t, -1, ['arm']), f.ret_sites(), rl)
            R.ob('PAIR', 'PAIR::%s::evicted-always-released' % fnkey(f), pth is None and bool(rl), 'every path through the Some(old) arm releases the evicted entry', pu[0].where, f)


def loans(F, R):
    al = F.fn(S + 'allocate')
    seg = al.calls(r'DataSegment::<.*>::allocate$')
    bo = al.calls(r'Sender::<.*>::borrow_chunk$')
    fa = sites_of(atomics(al, r'loan_counter$', 'fetch_add'))
    dom(R, al, seg, bo, 'segment.allocate<borrow_chunk', 'a loan is a counted reference to a freshly allocated chunk')
    dom(R, al, bo, al.ok_exit_sites(), 'borrow_chunk<Ok(chunk)', 'no loan without a reference')
    dom(R, al, fa, al.ok_exit_sites(), 'loan_counter++<Ok(chunk)', 'every loan is counted')
    for x in bo:
        t = sym_nstr(sym(al, x.args[1]))
        R.ob('FLOW', 'FLOW::%s::borrows-the-allocated-chunk' % fnkey(al), 'DataSegment::allocate' in t and 'offset' in t, 'borrow_chunk(%s)' % t[:160], x.where, al)
    rt = F.fn(S + 'return_loaned_chunk')
    rc = rt.calls(r'Sender::<.*>::release_chunk$')
    fs = sites_of(atomics(rt, r'loan_counter$', 'fetch_sub'))
    R.ob('PAIR', 'PAIR::%s::release+uncount' % fnkey(rt), len(rc) == 1 and len(fs) == 1 and rt.exists_path(None, rt.ret_sites(), rc, from_entry=True) is None and rt.exists_path(None, rt.ret_sites(), fs, from_entry=True) is None,
         'return_loaned_chunk = release_chunk + loan_counter-- on every path', rt.file + ':%s' % rt.line, rt)
    for a in atomics(rt, r'loan_counter$', 'fetch_sub') + atomics(al, r'loan_counter$', 'fetch_add'):
        const_arg(R, a.site.fn, a.site, 1, {1}, 'loan-counter-step')
    # deallocate only on the last reference
    rel = F.fn(S + 'release_chunk')
    de = rel.calls(r'::deallocate_bucket$')
    un = rel.calls(r'Sender::<.*>::untrack_chunk$')
    R.exact('deallocate_bucket sites in release_chunk', len(de), 1)
    for d in de:
        conds = lib.path_conds(rel, d, F)
        ok = any(re.search(r'^\(Sender::untrack_chunk\([^()]*\) == 1\)$', c) for c in conds)
        R.ob('ONLY-UNDER', 'ONLY-UNDER::%s::deallocate-under-last-reference' % fnkey(rel), ok, 'deallocate_bucket guarded by %s; required untrack_chunk(offset) == 1 (previous count one => now zero)' % conds, d.where, rel)
        R.ob('FLOW', 'FLOW::%s::deallocates-the-released-offset' % fnkey(rel), lib.param_is(rel, d.args[1], 'offset', 2), 'deallocate_bucket(%s)' % sym_nstr(sym(rel, d.args[1])), d.where, rel)
    callers = set(core.strip_generics(s.fn.id) for s in F.callers_of(r'segment_state::SegmentState::release_chunk$'))
    R.ob('WHO-MAY-CALL', 'WHO-MAY-CALL::SegmentState::release_chunk', callers == {core.strip_generics(S + 'untrack_chunk')}, 'callers: %s' % sorted(callers), rel.file, rel)
    callers = set(core.strip_generics(s.fn.id) for s in F.callers_of(r'::deallocate_bucket$') if s.fn.crate == 'iceoryx2' and 'sender' in s.fn.id)
    R.ob('WHO-MAY-CALL', 'WHO-MAY-CALL::deallocate_bucket(sender)', callers == {core.strip_generics(S + 'release_chunk')}, 'sender-side callers: %s' % sorted(callers), rel.file, rel)
    SS = 'iceoryx2::port::details::segment_state::SegmentState::'
    idx = {}
    for nm, op in (('borrow_chunk', 'fetch_add'), ('release_chunk', 'fetch_sub')):
        g = F.fn(SS + nm)
        ops = atomics(g, None, op)
        key = 'CONST-ARG::%s::' % fnkey(g)
        if len(ops) != 1 or len(g.atomic_ops()) != 1:
            R.ob('CONST-ARG', key + 'one-counter-op', False, 'expected exactly one %s' % op, g.file, g)
            continue
        const_arg(R, g, ops[0].site, 1, {1}, 'step', 'the count moves by exactly one per holder')
        idx[nm] = sym_nstr(sym(g, ops[0].site.args[0]))
        R.ob('FLOW', key + 'result-is-previous-count', ops[0].site.dest == [0], 'returns the previous count', ops[0].site.where, g)
    if len(idx) == 2:
        R.ob('SYM-EQ', 'SYM-EQ::%s::same-indexed-counter' % core.strip_generics(SS), idx['borrow_chunk'] == idx['release_chunk'], 'borrow on `%s`, release on `%s`' % (idx['borrow_chunk'][:120], idx['release_chunk'][:120]), 'iceoryx2/src/port/details/segment_state.rs')


def reclaim(F, R):
    f = F.fn(S + 'retrieve_returned_chunks')
    rc = f.calls(r'ZeroCopySender.*::reclaim$')
    rl = f.calls(r'Sender::<.*>::release_chunk$')
    key = 'FLOW::%s::reclaimed-offset-released' % fnkey(f)
    if len(rc) != 1 or len(rl) != 1:
        R.ob('FLOW', key, False, 'anchor-missing: reclaim (%d) / release_chunk (%d)' % (len(rc), len(rl)), f.file, f)
    else:
        p = f.prov_operand(rl[0].args[1])
        R.ob('FLOW', key, p.root[0] == 'call' and p.root[1].key() == rc[0].key() and 'as:Ok' in p.path and 'as:Some' in p.path, 'release_chunk(%s%s)' % (p.render(), ''), rl[0].where, f)
        pth = None
        for b in range(len(f.blocks)):
            si = f.switch_info(b)
            if si and 'discr_of' in si:
                q = f.prov_place(si['discr_of'])
                if q.root[0] == 'call' and q.root[1].key() == rc[0].key() and 'as:Ok' in q.path:
                    for lab, t in lib.arm_blocks(f, b, lambda l: l == 'Some', F):
                        pth = f.exists_path(core.Site(f, t, -1, ['arm']), f.ret_sites() + rc, rl)
        R.ob('PAIR', 'PAIR::%s::every-reclaimed-offset-released' % fnkey(f), pth is None, 'no path from Ok(Some(offset)) to the next reclaim/return without release_chunk', rc[0].where, f)
    g = F.fn(S + 'remove_connection')
    au = g.calls(r'ZeroCopySender.*::acquire_used_offsets$')
    cl = [c for c in F.closures_of(g) if c.calls(r'Sender::<.*>::release_chunk$')]
    R.ob('FLOW', 'FLOW::%s::callback-releases' % fnkey(g), len(au) == 1 and len(cl) == 1, 'acquire_used_offsets(|offset| self.release_chunk(offset))', au[0].where if au else g.file, g)
    if cl:
        c = cl[0]
        for x in c.calls(r'Sender::<.*>::release_chunk$'):
            R.ob('FLOW', 'FLOW::%s::releases-the-callback-offset' % fnkey(c), lib.param_is(c, x.args[1], 'offset', 2), 'release_chunk(%s)' % sym_nstr(sym(c, x.args[1])), x.where, c)
    clear = [s for s in g.sites if s.i != 'T' and s.node[0] == 'a' and '*' in s.node[1][1:] and g.prov_place(s.node[1]).root[0] == 'call' and (g.prov_place(s.node[1]).root[1].callee or '').endswith('::get_mut')]
    if not clear:
        clear = [s for s in g.sites if s.is_call and (s.callee or '').endswith('::get_mut')]
    dom(R, g, au, clear, 'acquire_used_offsets<slot-cleared', 'everything the vanished receiver owned is reclaimed before the connection is forgotten')


def segment_index_mapping(F, R):
    """remove_connection reclaims what the vanished receiver owned by walking segment_details: the (channel, segment) -> index
    mapping and its inverse must agree, and index <-> offset use the same sample size."""
    Z = 'iceoryx2_cal::zero_copy_connection::common::details::'
    gs = F.fn(Z + 'SharedManagementData::get_segment_details')
    adds = [s for s in gs.sites if s.i != 'T' and s.node[0] == 'a' and s.node[2][0] == 'bin' and s.node[2][1] == 'Add']
    key = 'SYM-EQ::zero_copy_connection::segment-index-mapping'
    fwd = None
    if len(adds) == 1:
        try:
            fwd = core.poly(core.sym_norm((core._BIN['Add'], sym(gs, adds[0].node[2][2]), sym(gs, adds[0].node[2][3]))))
        except core.NotPoly:
            fwd = None
    want = {tuple(sorted(('channel_id', 'self.number_of_segments'))): 1, ('segment_id',): 1}
    R.ob('SYM-EQ', key + '::forward', fwd == want, 'get_segment_details index = %s ; required channel_id * number_of_segments + segment_id' % (core.poly_str(fwd) if fwd is not None else 'not analysable'), adds[0].where if adds else gs.file, gs)
    inv = F.find_fns(r'^' + re.escape(Z) + r'Sender::<.*>::segment_id_from_index$')
    if len(inv) != 1:
        R.missing('Sender::segment_id_from_index')
    else:
        g = inv[0]
        s_ = sym_nstr(core.sym_place(g, [0]))
        nos = r'get\(self\.storage\)\.number_of_segments'
        ok = bool(re.fullmatch(r'SegmentId::new\(\(index % ' + nos + r'\)\)', s_)) or bool(re.fullmatch(r'SegmentId::new\(\(index - \(\(index / ' + nos + r'\) \* ' + nos + r'\)\)\)', s_))
        R.ob('SYM-EQ', key + '::inverse', ok, 'segment_id_from_index = %s ; required index mod number_of_segments (the inverse of channel_id * number_of_segments + segment_id)' % s_[:200], '%s:%s' % (g.file, g.line), g)
    n = 0
    for h in F.find_fns(r'ZeroCopySender>::acquire_used_offsets'):
        for c in [h] + F.closures_of(h):
            for s in c.calls(r'PointerOffset::from_offset_and_segment_id$'):
                n += 1
                a0, a1 = sym_nstr(sym(c, s.args[0])), sym_nstr(sym(c, s.args[1]))
                R.ob('SYM-EQ', key + '::reclaimed-offset=index*sample_size', 'sample_size' in a0 and '*' in a0 and 'index' in a0 and 'segment_id_from_index' in a1, 'reclaimed offset = from_offset_and_segment_id(%s, %s)' % (a0[:100], a1[:60]), s.where, c)
    R.floor('acquire_used_offsets offset reconstructions', n, 1)
    # try_send / reclaim compute index = offset / sample_size
    for m in ('try_send', 'reclaim'):
        for f in F.find_fns(r'^<' + re.escape(Z) + r'Sender<.*> as iceoryx2_cal::zero_copy_connection::ZeroCopySender>::' + m + '$'):
            divs = [s for g_ in lib.family(F, f) for s in g_.sites if s.i != 'T' and s.node[0] == 'a' and s.node[2][0] == 'bin' and s.node[2][1] == 'Div']
            for s in divs:
                a, b_ = sym_nstr(sym(s.fn, s.node[2][2])), sym_nstr(sym(s.fn, s.node[2][3]))
                R.ob('SYM-EQ', key + '::%s-index=offset/sample_size' % m, 'offset' in a.lower() and 'sample_size' in b_, '%s: chunk index = %s / %s' % (m, a[:80], b_[:80]), s.where, s.fn)
            R.ob('FLOOR', 'floor::%s::index computations' % fnkey(f), len(divs) >= 1, '%d index computations' % len(divs), f.file, f)


def drops(F, R):
    table = [
        (r'^<iceoryx2::sample::Sample<.*> as core::ops::drop::Drop>::drop$', r'Receiver::<.*>::release_offset$', 'Sample'),
        (r'^<iceoryx2::response::Response<.*> as core::ops::drop::Drop>::drop$', r'Receiver::<.*>::release_offset$', 'Response'),
        (r'^<iceoryx2::active_request::ActiveRequest<.*> as core::ops::drop::Drop>::drop$', r'Receiver::<.*>::release_offset$', 'ActiveRequest'),
        (r'^<iceoryx2::port::details::chunk_mut_shared_state::ChunkMutInnerSharedState<.*> as core::ops::drop::Drop>::drop$', r'::return_loan$', 'loaned chunk'),
    ]
    for pat, callee, nm in table:
        ds = F.find_fns(pat)
        key = 'MUST-CALL::Drop(%s)' % nm
        if len(ds) != 1:
            R.ob('MUST-CALL', key, False, 'anchor-missing: Drop impl (%d bodies)' % len(ds), nm)
            continue
        d = ds[0]
        bodies = [d] + F.closures_of(d)
        found = []
        for bdy in bodies:
            found += bdy.calls(callee)
        ok = False
        for x in found:
            bdy = x.fn
            if bdy.exists_path(None, bdy.ret_sites(), [x], from_entry=True) is None:
                ok = True
        R.ob('MUST-CALL', key, ok, 'Drop of %s gives its reference back on every path (%s)' % (nm, callee), found[0].where if found else d.file, d)
    ro = F.find_fns(r'^iceoryx2::port::details::receiver::Receiver::<.*>::release_offset$')
    if len(ro) != 1:
        R.missing('Receiver::release_offset')
    else:
        f = ro[0]
        rel = f.calls(r'ZeroCopyReceiver.*::release$')
        un = f.calls(r'::unregister_offset$')
        dom(R, f, un, rel, 'unregister_offset<receiver.release', 'the mapping bookkeeping is updated before the offset goes back')
        for x in rel:
            t = sym_nstr(sym(f, x.args[1]))
            R.ob('FLOW', 'FLOW::%s::releases-the-chunk-offset' % fnkey(f), t == 'chunk.offset', 'receiver.release(%s)' % t, x.where, f)
        R.exact('receiver.release sites in release_offset', len(rel), 1)


SHIFTING = r'\b(skip|filter|rev|skip_while|step_by|filter_map|flatten|flat_map)\('


def position_is_a_slot_index(F, R):
    """`Iterator::position()` counts the items the iterator YIELDS.  When the chain in front of it filters or skips (`filter`, `filter_map`,
    `skip`, `rev` ..) the count is a rank among the remaining items, not an index into the underlying slots.  Connection ids, segment ids
    and container keys in iceoryx2 are slot indices (empty slots are kept): a rank differs from the slot index as soon as an earlier
    slot is empty."""
    n = 0
    for f_ in F.fn_list:
        if not f_.crate.startswith('iceoryx2') or f_.crate == 'iceoryx2_ffi_c':
            continue
        for e_ in f_.calls(r'Iterator::position$|Iterator::rposition$'):
            n += 1
            t_ = sym_nstr(sym(f_, e_.args[0]))
            mm = re.search(SHIFTING, t_)
            R.ob('PATTERN', 'PATTERN::%s::position-counts-slots' % fnkey(f_), not mm, 'position(%s)%s' % (t_[:110], '' if not mm else ' ; `%s` in front of position() turns the result into a rank among the yielded items' % mm.group(1)), e_.where, f_)
    R.floors['position() calls examined'] = {'expected': 0, 'seen': n}


def received_chunks_owned(F, R):
    """A chunk taken out of a connection (`receive_impl() -> Some((details, chunk))`) is either wrapped into the object that gives it back on
    drop (Response / Sample / ActiveRequest: the types whose Drop reaches release_offset) or released at once - on every path to the next
    receive or to a return.  `Chunk` and `ChunkDetails` have no Drop: a chunk that is merely skipped (`continue`) stays borrowed for ever,
    the sender never sees it again (its segment slot and the borrow budget of the channel are gone)."""
    owners = set()
    for d in F.find_fns(r'^<iceoryx2::.* as core::ops::drop::Drop>::drop$'):
        if any(b.calls(r'::release_offset$') for b in lib.family(F, d)):
            owners.add((d.impl or {}).get('self_adt'))
    R.floor('types that give a received chunk back on drop', len(owners), 3)
    n = 0
    for f_ in F.fn_list:
        if f_.crate != 'iceoryx2' or f_.kind == 'closure':
            continue
        rcv = f_.calls(r'::receive_impl$')
        if not rcv:
            continue
        own = f_.calls(r'::release_offset$')
        for a_ in owners:
            if a_:
                own += agg_sites(f_, '^' + re.escape(a_) + '$')
        for c_ in f_.sites:
            if c_.is_call and c_.callee and c_ not in rcv:
                g_ = F.fn_opt(c_.callee)
                if g_ is not None and any(a_ and re.search(re.escape(a_) + r'(<|$)', str(g_.locals[0])) and not str(g_.locals[0]).startswith('core::result') for a_ in owners):
                    own.append(c_)
        arms = []
        for b in range(len(f_.blocks)):
            si = f_.switch_info(b)
            if si and 'discr_of' in si:
                p_ = f_.prov_place(si['discr_of'])
                if (p_.root[0] == 'call' and p_.root[1].key() == rcv[0].key() and 'as:Continue' in p_.path) or \
                   (p_.root[0] == 'call' and (p_.root[1].callee or '').endswith('::branch') and any(k_ == 'as:Continue' for k_ in p_.path)):
                    arms += [(b, tgt) for lab, tgt in lib.arm_blocks(f_, b, lambda l: l == 'Some', F)]
        if not arms:
            continue     # the result is forwarded whole (Option::map into an owner): nothing is taken apart here
        n += 1
        bad = None
        for b, tgt in arms:
            pth = f_.exists_path(core.Site(f_, tgt, -1, ['arm']), rcv + f_.ret_sites(), own)
            if pth is not None:
                bad = pth
        flav = 'slice' if re.search(r'[<, ]\[', f_.id.split('>::')[0]) else 'sized'
        if 'CustomPayloadMarker' in f_.id:
            flav = 'custom'
        R.ob('PAIR', 'PAIR::%s::%s::received-chunk-owned-or-released' % (fnkey(f_), flav), bad is None, 'from the Some(chunk) arm of receive_impl() every path to the next receive_impl() / a return passes the construction of an owner (%s) or release_offset()%s' % (', '.join(sorted(x.rsplit('::', 1)[-1] for x in owners if x)), '' if bad is None else ' -- path without owner: blocks %s' % bad), rcv[0].where, f_)
    R.floor('receive functions that take the received chunk apart', n, 2)


def check(F, R, tier):
    position_is_a_slot_index(F, R)
    received_chunks_owned(F, R)
    from . import C08
    C08.segment_size(F, R)   # the static data segment reserves the worst-case alignment slack (every configured chunk fits)
    # F20b: an index obtained from `.enumerate()` and used to address the enumerated collection (remove / index) is an index INTO that collection:
    # enumerate is applied before any index-shifting adaptor (skip, filter, rev, step_by ..); otherwise the wrong entry is removed
    n_en = 0
    for f_ in F.fn_list:
        if not f_.crate.startswith('iceoryx2') or f_.crate == 'iceoryx2_ffi_c':
            continue
        for e_ in f_.calls(r'Iterator::enumerate$'):
            n_en += 1
            t_ = sym_nstr(sym(f_, e_.args[0]))
            mm = re.search(r'\b(skip|filter|rev|skip_while|step_by|filter_map)\(', t_)
            coll = re.search(r'iter(?:_mut)?\(([^(),]+)', t_)
            uses = bool(coll) and any(re.search(r'::(remove|swap_remove)$', c_.callee or '') and sym_nstr(sym(f_, c_.args[0])) == coll.group(1) for c_ in f_.sites if c_.is_call and c_.args)
            if mm or 'to_be_removed_connections' in t_:
                R.ob('PATTERN', 'PATTERN::%s::enumerate-before-%s' % (fnkey(f_), mm.group(1) if mm else 'adaptors'), not (mm and uses), 'enumerate(%s)%s' % (t_[:100], ' ; the index is used to remove from the same collection: it must be the absolute index (enumerate first, then skip)' if uses else ''), e_.where, f_)
    R.floor('enumerate() calls examined', n_en, 15)
    # F19b: the connection identifies a chunk by offset / sample_size: the size passed with a send is the chunk size of the segment
    for f_ in F.find_fns(r'^iceoryx2::port::details::sender::Sender::<.*>::deliver_offset_to_connection_impl$'):
        for c_ in f_.calls(SEND_RE):
            t_ = sym_nstr(sym(f_, c_.args[2]))
            R.ob('FLOW', 'FLOW::%s::sample_size-is-the-segments-chunk-size::%s' % (fnkey(f_), c_.callee.rsplit('::', 1)[-1]), 'SegmentState::payload_size(' in t_ and 'ChunkMut::size' not in t_, 'send(.., sample_size = %s): required segment_states[offset.segment_id].payload_size(), not the used size of the chunk (smaller after a grow): the connection computes the chunk index as offset / sample_size' % t_[:110], c_.where, f_)
    send_sites(F, R)
    history(F, R)
    loans(F, R)
    reclaim(F, R)
    segment_index_mapping(F, R)
    drops(F, R)


def witnesses(R, tier):
    from . import witness
    return witness.run(R, 'C02', tier)


LEVEL_TEXT = ("Decides on all CFG paths the borrow/release pairing of the per-chunk reference count at every site that moves a reference, the "
              "deallocation guard (last reference only), the closed set of sending functions and the Drop obligations; plus compile-fail witnesses "
              "(send consumes the sample, received samples are immutable, loans are not clonable). Also: every chunk taken out of a connection is wrapped into an owning object or released on every path; slot indices are never ranks. The count's value over histories is not decided.")
LEVEL_NOTE = "Trusted: rustc MIR and type checker. Not decided: conservation over arbitrary histories."
TECHNIQUE = "static analysis: acquire/release pairing on MIR paths, only-under-arm rules, who-may-call over the resolved call graph, compile-fail witnesses"
