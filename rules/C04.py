"""C04 - crash at any instant: marker-first / registry-last creation order and reverse drop order for all 8 ports, the
service constructors and the node; exhaustive port cleanup; registry recovery coverage; init-permission discipline of the
dynamic and static storages."""
import re
from . import core, lib
from .core import sym, sym_nstr
from .lib import ord_floor, dom, pdom, no_path, atomics, raw, sites_of, fnkey, const_arg, field_order_last

EXPLANATION = (
    "Static rules over MIR and type facts: SIBLINGS over the 8 port constructors (the function containing add_<port>_id): "
    "DOM create_port_tag < every resource-creating call; NO-PATH no resource-creating call after add_<port>_id; FIELD-ORDER "
    "port_tag / static_storage / details_storage declared last (dropped last). DOM chains in Builder::create/open and the "
    "service removal functions; MATCH exhaustiveness of the port cleanup dispatch (no catch-all arm) and remove_port_tag on "
    "every non-skip path; coverage: every Container field of each DynamicConfig is recovered in remove_dead_node_id, nodes last; "
    "posix_shared_memory / static_storage file: created with INIT permissions, initializer < version stamp < final permission. "
    "A crash-at-any-instant property becomes a dominance property; success of cleanup after a crash is not decided.")
NOT_DECIDED = "that cleanup succeeds after a crash at system call N (needs the kernel); survivors' behaviour"

RES = (r'DataSegment::<.*>::create_(static|dynamic)_segment$|DataSegmentView::<.*>::(open|new)|'
       r'arc_sync_policy::ArcSyncPolicy::new$|::force_update_connections$|::populate_listener_channels$|'
       r'^iceoryx2_cal::.*Builder.*::(create|open|create_locked|open_or_create)$|dynamic_config::\w+::DynamicConfig::add_\w+_id$')
PORTS = ('publisher', 'subscriber', 'client', 'server', 'notifier', 'listener', 'reader', 'writer')


def ports(F, R):
    seen = {}
    for s in F.callers_of(r'dynamic_config::\w+::DynamicConfig::add_(\w+)_id$'):
        kind = re.search(r'add_(\w+)_id$', s.callee).group(1)
        f = s.fn
        seen[kind] = f
        tag = f.calls(r'node::SharedNode::<.*>::create_port_tag$|node::SharedNode::create_port_tag$')
        key = 'SIBLINGS::%s::' % fnkey(f)
        if len(tag) != 1:
            R.ob('DOM', key + 'one-create_port_tag', False, 'expected exactly one create_port_tag call, found %d' % len(tag), f.file, f)
            continue
        res = [c for c in f.calls(RES) if not c.macro]
        R.ob('SIBLINGS', key + 'resource-sites', len(res) >= 2, '%d resource-creating call sites recognised (%s)' % (len(res), ', '.join(sorted(set(core.short(c.callee) for c in res)))), tag[0].where, f)
        dom(R, f, tag, res, 'create_port_tag<%s-resources' % kind, '!MUST! be the first thing that is created: a crash in between would leak the port resources')
        later = [c for c in res if c.key() != s.key()]
        pth = f.exists_path(s, later, [])
        R.ob('NO-PATH', 'NO-PATH::%s::add_%s_id-is-last' % (fnkey(f), kind), pth is None, '!MUST! be the last task: no resource-creating call is reachable after add_%s_id%s' % (kind, '' if pth is None else ' -- path %s' % pth), s.where, f)
        # the registry entry is made on every successful construction
        dom(R, f, [s], f.ok_exit_sites(), 'add_%s_id<Ok' % kind, 'a port that exists is registered')
    for k in PORTS:
        if k not in seen:
            R.missing('port constructor calling add_%s_id' % k)
    R.floor('port constructors', len(seen), 8)
    # structs with a `port_tag` field: last field
    n = 0
    for aid, a in F.adts.items():
        if a['crate'] != 'iceoryx2' or a['kind'] != 'struct' or not a['variants']:
            continue
        names = [x['name'] for x in a['variants'][0]['fields']]
        if 'port_tag' in names and aid.startswith('iceoryx2::port::'):
            n += 1
            field_order_last(R, F, aid, 'port_tag', why='the tag is the cleanup marker and must be removed last')
    R.floor('structs with a port_tag field', n, 8)
    field_order_last(R, F, 'iceoryx2::service::ServiceState', 'static_storage', why='the static service config names all other resources')
    field_order_last(R, F, 'iceoryx2::node::SharedNodeState', 'details_storage', why='node details are the last thing removed')


# position of each closure parameter of BuilderWithServiceType::create/open when the rules were written
# (used only when no parameter of that name exists any more: a rename must not change the verdict)
_CLOSURE_POS = {'is_service_available': None, 'prepare_service_config': 5, 'generate_dynamic_config': 6, 'create_service_resource': 7,
                'release_service_resource_ownership': 8, 'verify_service_configuration': 4, 'open_service_resource': 5}


def closure_param_calls(fn, name):
    idx = _CLOSURE_POS.get(name)
    if idx is None:
        idx = 4 if fn.id.endswith('::create') else 3
    return lib.param_calls(fn, name, idx)


def chain(R, fn, steps, why):
    """steps: list of (name, sites). Each step's sites dominated by previous step's sites."""
    for (n1, a), (n2, b) in zip(steps, steps[1:]):
        dom(R, fn, a, b, '%s<%s' % (n1, n2), why)


def builder(F, R):
    B = 'iceoryx2::service::builder::BuilderWithServiceType::<ServiceType>::'
    cr = F.fn(B + 'create')
    steps = [
        ('create_service_tag', cr.calls(r'SharedNode::<.*>::create_service_tag$|SharedNode::create_service_tag$')),
        ('create_static_config_storage', cr.calls(r'::create_static_config_storage$')),
        ('unlock', cr.calls(r'StaticStorageLocked.*::unlock$')),
        ('create_service_resource', closure_param_calls(cr, 'create_service_resource')),
        ('create_dynamic_config_storage', cr.calls(r'::create_dynamic_config_storage$')),
        ('registered_services.add', cr.calls(r'RegisteredServices::add$')),
    ]
    chain(R, cr, steps, 'creation protocol: tag first, static config marks "being created", registry last')
    op = F.fn(B + 'open')
    steps = [
        ('create_service_tag', op.calls(r'SharedNode::<.*>::create_service_tag$|SharedNode::create_service_tag$')),
        ('open_service_resource', closure_param_calls(op, 'open_service_resource')),
        ('open_dynamic_config_storage', op.calls(r'::open_dynamic_config_storage$')),
    ]
    chain(R, op, steps, 'open protocol: tag first, node registration last')
    dom(R, op, closure_param_calls(op, 'verify_service_configuration'), steps[0][1], 'verify_service_configuration<create_service_tag', 'an incompatible open leaves nothing behind')


def removal(F, R):
    cands = F.find_fns(r'ServiceInternal<.*>>?::__internal_remove_service$|::__internal_remove_service$')
    cands = [f for f in cands if f.kind != 'closure']
    if len(cands) != 1:
        R.missing('__internal_remove_service (found %d)' % len(cands))
    else:
        f = cands[0]
        steps = [
            ('remove_stale_service_resources', f.calls(r'remove_stale_service_resources$')),
            ('dynamic-config.remove_cfg', f.calls(r'NamedConceptMgmt.*::remove_cfg$')),
            ('remove_static_service_config', f.calls(r'remove_static_service_config$')),
        ]
        chain(R, f, steps, 'IMPORTANT: the static service config must be removed last')
    cands = [f for f in F.find_fns(r'::__internal_remove_node_from_service$') if f.kind != 'closure']
    if len(cands) != 1:
        R.missing('__internal_remove_node_from_service')
        return
    f = cands[0]
    cl = F.closures_of(f, recursive=False)
    rst = [c for c in cl if c.calls(r'stale_resource_cleanup::remove_service_tag$')]
    cpr = [c for c in cl if c.calls(r'stale_resource_cleanup::remove_port_tag$')]
    if len(rst) != 1 or len(cpr) != 1:
        R.missing('closures of __internal_remove_node_from_service (remove_service_tag=%d, cleanup_port_resources=%d)' % (len(rst), len(cpr)))
        return
    rst, cpr = rst[0], cpr[0]
    rd = f.calls(r'DynamicConfig::remove_dead_node_id$')
    tagcalls = f.calls(re.escape(rst.id) + '$')
    # every Ok exit is produced by remove_service_tag(); the one after remove_dead_node_id post-dominates it
    for r_ in rd:
        pth = f.exists_path(r_, f.ret_sites(), tagcalls + f.err_exit_sites())
        R.ob('PDOM', 'PDOM::%s::remove_dead_node_id|>remove_service_tag' % fnkey(f), pth is None and bool(tagcalls),
             'after the registry entry was removed every non-error path to a return removes the service tag%s' % ('' if pth is None else ' -- escaping %s' % pth), r_.where, f)
    rs = f.calls(r'::__internal_remove_service$')
    for t_ in tagcalls:
        pth = f.exists_path(t_, rs, [])
        R.ob('NO-PATH', 'NO-PATH::%s::service-removed-before-its-tag' % fnkey(f), pth is None, 'no __internal_remove_service is reachable after the node\'s service tag was removed (a crash in between would leave service resources nobody is pointed to)%s' % ('' if pth is None else ' -- path %s' % pth), t_.where, f)
    R.floor('__internal_remove_service calls in remove_node_from_service', len(rs), 2)
    for t in tagcalls:
        R.ob('FLOW', 'FLOW::%s::Ok-only-via-remove_service_tag' % fnkey(f), t.dest == [0], 'remove_service_tag() result is returned directly', t.where, f)
    oks = f.ok_exit_sites()
    R.ob('FLOW', 'FLOW::%s::no-other-Ok-exit' % fnkey(f), len(oks) == 0, 'no `Ok(..)` is constructed outside remove_service_tag() (%d found)' % len(oks), f.file, f)
    # exhaustive dispatch on UniquePortId without a catch-all
    upid = F.adt('iceoryx2::identifiers::UniquePortId') if 'iceoryx2::identifiers::UniquePortId' in F.adts else None
    if upid is None:
        cand = [a for a in F.adts if a.endswith('::UniquePortId')]
        upid = F.adts[cand[0]] if cand else None
    if upid is None:
        R.missing('enum UniquePortId')
        return
    nvar = len(upid['variants'])
    sw = []
    for b in range(len(cpr.blocks)):
        si = cpr.switch_info(b)
        if si and si.get('enum_ty') and si['enum_ty'].endswith('UniquePortId'):
            sw.append((b, si))
    key = 'MATCH::%s::port-kind-dispatch-exhaustive' % fnkey(cpr)
    if not sw:
        R.ob('MATCH', key, False, 'anchor-missing: no match on UniquePortId', cpr.file, cpr)
    else:
        b, si = sw[0]
        explicit = len(si['arms'])
        oth = cpr.blocks[si['otherwise']]['t'][0]
        ok = (explicit == nvar and oth == 'unreachable') or (explicit == nvar - 1 and oth != 'unreachable' and False)
        # MIR encodes the last variant as `otherwise` when the match is exhaustive without wildcard: accept nvar-1 explicit arms
        # only if the otherwise block is itself one of the per-variant handlers (it then has its own distinct successor)
        R.ob('MATCH', key, explicit == nvar and oth == 'unreachable', 'match on UniquePortId has %d explicit arms for %d variants, fall-through=%s; a `_` arm would silently skip a future port kind' % (explicit, nvar, oth), cpr.term_site(b).where, cpr)
    rpt = cpr.calls(r'stale_resource_cleanup::remove_port_tag$')
    # on every path to a RemovePort result the port tag was removed
    rem = lib.agg_sites(cpr, r'PortCleanupAction$', 'RemovePort')
    if not rem:
        rem = [s for s in cpr.sites if s.i != 'T' and s.node[0] == 'a' and s.node[2][0] == 'use' and s.node[2][1][0] == 'k' and 'RemovePort' in str(s.node[2][1])]
    dom(R, cpr, rpt, rem, 'remove_port_tag<RemovePort', 'a port leaves the registry only after its tag is gone')
    return cpr


def kinds_removed(F, root, depth=6):
    """config_scheme kinds whose concept is removed (NamedConceptMgmt::remove_cfg / ZeroCopyPortRemover::remove_sender|receiver in the same body) in `root` or any function reached from it
    through direct calls and closures (bounded depth)."""
    seen, out, todo = set(), {}, [(root, 0)]
    while todo:
        f, d = todo.pop()
        if f.id in seen:
            continue
        seen.add(f.id)
        rm = f.calls(r'NamedConceptMgmt::remove_cfg$|zero_copy_connection::ZeroCopy(PortRemover|Connection)::remove_(sender|receiver)$')
        if rm:
            roles = sorted(set(m_.group(1) for m_ in (re.search(r'::remove_(sender|receiver)$', c_.callee) for c_ in rm) if m_))
            for c in f.calls(r'^iceoryx2::service::config_scheme::\w+_config$'):
                k_ = c.callee.split('::')[-1]
                if roles and k_ == 'connection_config':
                    # a connection has a sender side and a receiver side, each removed by its own call
                    for r_ in roles:
                        out.setdefault(k_ + '/' + r_, c)
                else:
                    out.setdefault(k_, c)
        if d >= depth:
            continue
        for c in F.closures_of(f, recursive=False):
            todo.append((c, d + 1))
        for s in f.sites:
            if s.is_call and s.callee and s.callee.startswith('iceoryx2::'):
                g = F.fn_opt(s.callee)
                if g is not None:
                    todo.append((g, d + 1))
    return out, seen


def resource_kinds(F, R, cpr=None):
    """Agreement between the creating and the removing side: every kind of named concept (config_scheme::<kind>_config) that a port
    creates must be removed by both dead-port cleanup routes (registered ports: cleanup_port_resources closure; unregistered ports
    found through their tag: remove_stale_port_resources)."""
    created = {}
    for s in F.callers_of(r'^iceoryx2::service::config_scheme::\w+_config$'):
        f = s.fn
        if not f.id.startswith('iceoryx2::port::'):
            continue
        cr = [c for c in f.calls(r'^iceoryx2_cal::.*Builder::create(_\w+)?$') if not c.macro]
        if cr:
            k_ = s.callee.split('::')[-1]
            m_ = re.search(r'::create_(sender|receiver)$', cr[0].callee)
            if m_ and k_ == 'connection_config':
                k_ += '/' + m_.group(1)
            created.setdefault(k_, (f, cr[0]))
    R.floor('named-concept kinds created by ports', len(created), 5)
    routes = []
    rs = F.fn_opt('iceoryx2::service::stale_resource_cleanup::remove_stale_port_resources')
    if rs is None:
        R.missing('remove_stale_port_resources')
    else:
        routes.append(('tag-walk', rs))
    if cpr is not None:
        routes.append(('registry-walk', cpr))
    for name, root in routes:
        got, seen = kinds_removed(F, root)
        for k, (f, c) in sorted(created.items()):
            R.ob('COVERAGE', 'COVERAGE::%s::%s-removes-%s' % (fnkey(root), name, k), k in got,
                 'ports create a `%s` concept (%s); the %s cleanup of a dead port %s (kinds removed: %s; %d functions followed)' % (
                     k, core.short(f.id), name, 'removes it' if k in got else 'never removes it: the resource outlives the dead node', sorted(got), len(seen)),
                 c.where, root)


def dyncfg(F, R):
    n = 0
    for pat in ('publish_subscribe', 'event', 'request_response', 'blackboard'):
        aid = 'iceoryx2::service::dynamic_config::%s::DynamicConfig' % pat
        a = F.adt(aid)
        conts = [x['name'] for x in a['variants'][0]['fields'] if 'mpmc::container::Container' in x['ty_s']]
        f = F.fn('iceoryx2::service::dynamic_config::%s::DynamicConfig::remove_dead_node_id' % pat)
        recs = f.calls(r'mpmc::container::Container::<.*>::recover$')
        got = set(f.chain(c.args[0]).replace('self.', '') for c in recs)
        for c in conts:
            n += 1
            R.ob('COVERAGE', 'COVERAGE::%s::recovers-%s' % (fnkey(f), c), c in got, 'registry field `%s` is recovered for a dead node (recovered: %s)' % (c, sorted(got)), '%s:%s' % (f.file, f.line), f)
        for c in recs:
            const_arg(R, f, c, 3, {'Default'}, 'port-recover-mode(%s)' % f.chain(c.args[0]), 'a locked port registry would refuse ports for ever')
    R.floor('port registry containers', n, 8)
    top = F.fn('iceoryx2::service::dynamic_config::DynamicConfig::remove_dead_node_id')
    subs = top.calls(r'dynamic_config::\w+::DynamicConfig::remove_dead_node_id$')
    pats = set(re.search(r'dynamic_config::(\w+)::DynamicConfig', c.callee).group(1) for c in subs)
    R.ob('COVERAGE', 'COVERAGE::%s::dispatches-all-patterns' % fnkey(top), pats == {'publish_subscribe', 'event', 'request_response', 'blackboard'}, 'dispatches to %s' % sorted(pats), top.file, top)
    nodes = [c for c in top.calls(r'mpmc::container::Container::<.*>::recover$') if top.chain(c.args[0]) == 'self.nodes']
    for s in subs:
        pth = top.exists_path(s, top.ret_sites(), nodes)
        R.ob('PDOM', 'PDOM::%s::nodes-recovered-last' % fnkey(top), pth is None and bool(nodes), 'after the pattern-specific port recovery the node entry itself is recovered (last)', s.where, top)
    for c in nodes:
        const_arg(R, top, c, 3, {'LockIfLastIndex'}, 'nodes-recover-mode', 'the last node leaving marks the service for destruction')


def storages(F, R):
    # posix_shared_memory dynamic storage
    P = 'iceoryx2_cal::dynamic_storage::posix_shared_memory::'
    cands = [f for f in F.find_fns(r'^' + re.escape(P) + r'Builder::<.*>::init_impl$')]
    if len(cands) != 1:
        R.missing('posix_shared_memory Builder::init_impl')
    else:
        f = cands[0]
        init = [s for s in f.sites if s.is_call and re.search(r'dynamic_storage::Initializer::<.*>::call$|FnOnce.*::call_once$|FnMut.*::call_mut$', s.callee or '') and 'initializer' in f.chain(s.args[0])]
        ver = [a for a in atomics(f, r'version', 'store')]
        perm = f.calls(r'set_permission$')
        dom(R, f, init, sites_of(ver), 'initializer<version-stamp', 'an opener never sees a stamped but uninitialised storage')
        dom(R, f, sites_of(ver), perm, 'version-stamp<final-permission', 'readable only when complete')
        for v in ver:
            R.ob('ORD', 'ORD::%s::version-store' % fnkey(f), v.ords[0] in core.ORD_REL, 'version store ordering=%s floor=R (publishes the initialised payload)' % v.ords[0], v.site.where, f)
        if init:
            # on the initializer-false arm neither the version store nor the permission change is reachable
            for b in range(len(f.blocks)):
                t = f.blocks[b]['t']
                if t[0] == 'switch':
                    p = f.prov_operand(t[1])
                    if p.root[0] == 'call' and p.root[1].key() == init[0].key():
                        tt, ff = lib.bool_switch_arms(f, b)
                        pth = f.exists_path(core.Site(f, ff, -1, ['arm']), sites_of(ver) + perm, [])
                        R.ob('NO-PATH', 'NO-PATH::%s::failed-initializer-never-finalises' % fnkey(f), pth is None, 'from the initializer()==false arm no version stamp / permission change is reachable', init[0].where, f)
    cands = [f for f in F.find_fns(r'^' + re.escape(P) + r'Builder::<.*>::create_impl$')]
    if len(cands) != 1:
        R.missing('posix_shared_memory Builder::create_impl')
    else:
        f = cands[0]
        pc = f.calls(r'SharedMemory(Creation)?Builder::permission$')
        key = 'CONST-ARG::%s::created-with-INIT_PERMISSIONS' % fnkey(f)
        if not pc:
            R.ob('CONST-ARG', key, False, 'anchor-missing: SharedMemoryBuilder::permission', f.file, f)
        for c in pc:
            t = sym_nstr(sym(f, c.args[1]))
            R.ob('CONST-ARG', key, 'INIT_PERMISSIONS' in t, 'shared memory created with permission `%s`; required INIT_PERMISSIONS (write-only until initialised)' % t, c.where, f)
    # static storage file
    S = 'iceoryx2_cal::static_storage::file::'
    for f in F.find_fns(r'^<' + re.escape(S) + r'Locked as iceoryx2_cal::static_storage::StaticStorageLocked<.*>>::unlock$'):
        w = f.calls(r'::write$|::write_all$|File::write')
        sp = f.calls(r'set_permission$')
        dom(R, f, w, sp, 'write(contents)<set_permission(FINAL)', 'openers treat any other mode as "being created"')
        for c in sp:
            t = sym_nstr(sym(f, c.args[1]))
            R.ob('CONST-ARG', 'CONST-ARG::%s::final-permission' % fnkey(f), 'FINAL_PERMISSIONS' in t, 'set_permission(%s)' % t, c.where, f)
    n = 0
    for f in F.find_fns(r'^<' + re.escape(S) + r'Builder as iceoryx2_cal::static_storage::StaticStorageBuilder<.*>>::create_locked$'):
        n += 1
        pc = f.calls(r'FileBuilder::permission$|FileCreationBuilder::permission$')
        key = 'CONST-ARG::%s::created-with-INIT_PERMISSIONS' % fnkey(f)
        if not pc:
            R.ob('CONST-ARG', key, False, 'anchor-missing: permission() in create_locked', f.file, f)
        for c in pc:
            t = sym_nstr(sym(f, c.args[1]))
            R.ob('CONST-ARG', key, 'INIT_PERMISSIONS' in t, 'file created with permission `%s`; required INIT_PERMISSIONS' % t, c.where, f)
    R.floor('static storage create_locked', n, 1)


def node_cleanup(F, R):
    cands = [f for f in F.find_fns(r'^iceoryx2::node::.*::remove_stale_resources_impl$')]
    if len(cands) != 1:
        R.missing('remove_stale_resources_impl (found %d)' % len(cands))
        return
    f = cands[0]
    steps = [
        ('acquire_cleaner_lock', f.calls(r'acquire_cleaner_lock$')),
        ('remove_node', f.calls(r'::remove_node$')),
    ]
    chain(R, f, steps, 'the node entry is removed after its tags were walked, under the cleaner lock')
    # F14b: a dead node without details is cleaned up with the config it was discovered with, never with the global config
    gc = f.calls(r'config::Config::global_config$')
    R.ob('WHO-MAY-CALL', 'WHO-MAY-CALL::%s::no-global-config-fallback' % fnkey(f), not gc, 'the dead-node cleanup never falls back to Config::global_config() (%d call(s)): with a non-default config the cleaner lock would be looked up in the wrong domain and the cleanup removes nothing' % len(gc), gc[0].where if gc else '%s:%s' % (f.file, f.line), f)


def node_creation(F, R):
    """F14: the monitoring token is the marker through which Node::list() discovers a node: it is created before every other resource of the node."""
    cands = [f for f in F.find_fns(r'^iceoryx2::node::NodeBuilder::__internal_create_with_custom_node_id$')]
    if len(cands) != 1:
        R.missing('NodeBuilder::__internal_create_with_custom_node_id (found %d)' % len(cands))
        return
    f = cands[0]
    tok = f.calls(r'NodeBuilder::create_token$')
    others = f.calls(r'NodeBuilder::create_node_details_storage$') + [c for c in f.calls(RES) if not c.macro]
    R.floor('node resources created besides the token', len(others), 1)
    dom(R, f, tok, others, 'create_token<node-resources', 'Node::list() finds nodes only through their monitoring token: what is created before it can never be cleaned up after a crash')
    dom(R, f, tok, f.ok_exit_sites(), 'create_token<Ok', 'a node that exists is monitorable')


def locked_storages(F, R):
    """F15: a static storage exists in a locked (being created) state that NamedConceptMgmt::list_cfg hides; the dead-node cleanup enumerates tags
    with list_cfg, so it needs a second enumeration for storages whose creator died before unlock() - otherwise the node directory can never be removed."""
    lc = [f for f in F.find_fns(r'^<iceoryx2_cal::static_storage::file::Storage as iceoryx2_cal::named_concept::NamedConceptMgmt>::list_cfg$')]
    if len(lc) != 1:
        R.missing('static_storage::file::Storage::list_cfg')
        return
    lc = lc[0]
    bodies, _ = kinds_removed(F, lc, depth=3)   # only used for the set of functions followed
    hides = False
    for g in [lc] + F.closures_of(lc) + [F.fn_opt(c.callee) for c in lc.calls(r'^iceoryx2_cal::static_storage::file::') if F.fn_opt(c.callee)]:
        for h in [g] + F.closures_of(g):
            if lib.const_sites(h, r'INIT_PERMISSIONS'):
                hides = True
    rn = F.fn_opt('iceoryx2::node::remove_node')
    if rn is None:
        R.missing('iceoryx2::node::remove_node')
        return
    other_enum = [c for c in rn.calls(r'static_storage::StaticStorage::list_\w+$|StaticStorage.*::list_locked\w*$')]
    rmdir = rn.calls(r'node::remove_node_details_directory$')
    ok = (not hides) or (bool(other_enum) and all(any(rn.dominates(e, d) for e in other_enum) for d in rmdir))
    R.ob('COVERAGE', 'COVERAGE::%s::locked-storages-are-removed' % fnkey(rn), ok,
         'list_cfg %s storages in the locked (INIT_PERMISSIONS) state; remove_node() %s before removing the node directory: a tag / details file whose creator died between create_locked() and unlock() is never seen by the tag walk and blocks rmdir for ever' % (
             'hides' if hides else 'does not hide', 'enumerates them separately (%s)' % ', '.join(core.short(c.callee) for c in other_enum) if other_enum else 'has no other enumeration'),
         rmdir[0].where if rmdir else '%s:%s' % (rn.file, rn.line), rn)



TOKENS = [(r'__internal_acquire_producer$', r'__internal_release_producer$', 'per-entry producer token (has_producer)')]


def dead_port_tokens_released(F, R):
    """Dead-port cleanup dispatch (`cleanup_port_resources` in __internal_remove_node_from_service): a port kind whose API takes a
    cross-process EXCLUSIVE token that only its own Drop gives back (the blackboard writer: one producer token per entry, a flag in the
    shared entry) gets that token released by the arm of its kind - otherwise the token of a crashed holder is lost for ever and no
    survivor can ever obtain it again (HandleAlreadyExists for every later writer)."""
    fs = F.find_fns(r'^iceoryx2::service::internal::ServiceInternal::__internal_remove_node_from_service$')
    if len(fs) != 1:
        R.missing('__internal_remove_node_from_service')
        return
    n = 0
    for c in F.closures_of(fs[0]):
        for b in range(len(c.blocks)):
            si = c.switch_info(b)
            if not si or not si.get('labels'):
                continue
            labs = F.enum_labels(si['labels'][1])
            if 'Writer' not in labs.values() or 'Publisher' not in labs.values():
                continue
            for lab, tgt in lib.arm_blocks(c, b, lambda l: True, F):
                mod = 'iceoryx2::port::%s::' % lab.lower()
                for acq, rel, what in TOKENS:
                    takes = [g for g in F.fn_list if g.id.startswith(mod) or ('<' + mod) in g.id[:len(mod) + 2]]
                    takes = [g for g in takes if g.calls(acq)]
                    if not takes:
                        continue
                    n += 1
                    # callees reachable from the blocks of this arm (bounded call-graph search)
                    arm_blocks_ = [bb for bb in range(len(c.blocks)) if c.edge_dominates(b, tgt, bb)]
                    seen, todo, found = set(), [], False
                    for bb in arm_blocks_:
                        t = c.blocks[bb]['t']
                        if t[0] == 'call' and isinstance(t[1], dict) and t[1].get('d'):
                            todo.append((t[1]['d'], 0))
                    while todo and not found:
                        cid, d = todo.pop()
                        if cid in seen or d > 4:
                            continue
                        seen.add(cid)
                        if re.search(rel, cid):
                            found = True
                            break
                        g = F.fn_opt(cid)
                        if g is not None and g.crate.startswith('iceoryx2'):
                            for s_ in g.sites:
                                if s_.is_call and s_.callee:
                                    todo.append((s_.callee, d + 1))
                    if not found:
                        # alternative recovery: the constructor of the kind gives stale tokens back before it hands out the port (valid when
                        # only one port of the kind can exist: acquiring the slot proves that no live holder is left)
                        for g in F.fn_list:
                            if g.kind != 'closure' and g.name == 'new' and (g.id.startswith(mod) or ('<' + mod) in g.id[:len(mod) + 2]) and g.calls(rel):
                                found = True
                    R.ob('COVERAGE', 'COVERAGE::%s::dead-%s-exclusive-tokens-released' % (fnkey(fs[0]), lab), found, 'a live %s takes the %s in %s; the %s arm of the dead-port cleanup %s' % (lab, what, takes[0].id.rsplit('::', 2)[-2] + '::' + takes[0].name, lab, 'reaches its release' if found else 'does not release it: a writer that dies holding an entry handle blocks that key for every later writer'), c.term_site(b).where, c)
    R.floors['port kinds with exclusive tokens in the dead-port dispatch'] = {'expected': 0, 'seen': n}

def check(F, R, tier):
    dead_port_tokens_released(F, R)
    from . import C06
    C06.open_retry_is_bounded(F, R)   # a survivor never hangs in open() behind a creator that died mid-initialisation
    ports(F, R)
    builder(F, R)
    cpr = removal(F, R)
    resource_kinds(F, R, cpr)
    dyncfg(F, R)
    storages(F, R)
    node_cleanup(F, R)
    node_creation(F, R)
    locked_storages(F, R)


LEVEL_TEXT = ("Decides on all CFG paths the marker-first / registry-last creation order and reverse drop (field) order of all 8 ports, services "
              "and the node, exhaustiveness of the port cleanup dispatch, recovery coverage of every registry container and the init-permission "
              "discipline of the storages. These make every crash point recoverable; The open() retry loop is bounded by the timeout check on every cycle (no survivor hangs behind a dead creator). Success of the recovery itself is not decided.")
LEVEL_NOTE = "Trusted: rustc MIR/type facts; the resource-creating callee table (rules/C04.py RES). Not decided: kernel behaviour at a crash point."
TECHNIQUE = "static analysis: MIR dominance chains over sibling constructors, field (drop) order, match exhaustiveness, coverage of registry fields"

THOROUGH_UNIVERSES = ['dev_permissions', 'no_std']
