"""C05 - events: step order of Handle::notify and Waiter::drain_events, SeqCst class of the shared notification flag,
trigger skipped only on NOTIFIED, ids only from swap results, trigger back-ends use the matching blocking class."""
import re
from . import core, lib
from .core import sym, sym_nstr
from .lib import ord_floor, dom, pdom, no_path, atomics, raw, sites_of, fnkey, const_arg

EXPLANATION = (
    "Static rules over MIR of event/common.rs, the event-state impls and the trigger back-ends: DOM (notify: activate(id) < "
    "state CAS < trigger; wait: state reset < drain, wait_call < forced reset, empty_buffer < drain); ORD (every access to the "
    "notification flag is SeqCst: store-buffer shaped protocol); CONST-ARG (IDLE->PENDING, PENDING->NOTIFIED, NOTIFIED->IDLE, "
    "store IDLE); NO-PATH (a return without trigger lies only under CAS-Err(NOTIFIED)); FLOW (ids reported by reset_all derive "
    "from the swap(0) result); SIBLINGS (each trigger's try/timed/blocking wait reaches the primitive of the same class, "
    "empty_buffer never blocks). Necessary conditions of no-lost-wake-up / no-phantom; interleavings are not decided.")
NOT_DECIDED = "absence of lost wake-ups over all interleavings and weak-memory executions"

NOTIFY = '<iceoryx2_cal::event::common::Handle<E, Mgmt, Storage, H> as iceoryx2_cal::event::Notifier<E>>::notify'
DRAIN = 'iceoryx2_cal::event::common::Waiter::<E, Mgmt, Storage, W>::drain_events'
NS = r'notification_state$'
CONSTS = 'iceoryx2_cal::event::common::NOTIFICATION_STATE_'


def cval(F, name):
    c = F.consts.get(CONSTS + name)
    if c is None:
        raise core.AnchorMissing('constant ' + CONSTS + name)
    return c['val']


def check(F, R, tier):
    lib.slot_loops_cover_all_slots(R, F, r'^iceoryx2::port::notifier::', 2, 'every attached listener obtains the id')
    lib.cas_loops_fresh(R, F, r'^iceoryx2_bb_lock_free::mpmc::bit_set::details::BitSet', 2, 'a decision computed once before the loop is stale after the first failed CAS')
    IDLE, PENDING, NOTIFIED = cval(F, 'IDLE'), cval(F, 'PENDING'), cval(F, 'NOTIFIED')
    R.ob('CONST', 'CONST::NOTIFICATION_STATE::distinct', len({IDLE, PENDING, NOTIFIED}) == 3, 'IDLE=%s PENDING=%s NOTIFIED=%s' % (IDLE, PENDING, NOTIFIED), 'iceoryx2-cal/src/event/common.rs')
    n = F.fn(NOTIFY)
    cl = {c.id.rsplit('::', 1)[-1]: c for c in F.closures_of(n, recursive=False)}
    set_notified = [c for c in cl.values() if atomics(c, NS, 'compare_exchange(_weak)?')]
    trig = [c for c in cl.values() if c.calls(r'HandlerInterface.*::notify$|trigger::HandlerInterface::notify$')]
    if len(set_notified) != 1 or len(trig) != 1:
        R.missing('notify closures (set_state_to_notified=%d, trigger=%d)' % (len(set_notified), len(trig)))
        return
    set_notified, trig = set_notified[0], trig[0]
    # ---- notify
    act = n.calls(r'EventState.*::activate$')
    cas = ord_floor(R, n, NS, 'compare_exchange(_weak)?', 0, 'SC', 'store-buffer shaped hand-shake: id write / flag read vs flag write / id read')
    ord_floor(R, n, NS, 'compare_exchange(_weak)?', 1, 'SC', 'the failed CAS is the notifier\'s read of the flag')
    trig_calls = n.calls(re.escape(trig.id) + '$')
    dom(R, n, act, sites_of(cas), 'activate(id)<state-CAS', 'the id must be visible before the notifier decides to skip the trigger')
    dom(R, n, sites_of(cas), trig_calls, 'state-CAS<trigger', 'PENDING is announced before the trigger')
    # error of activate leaves before any state change
    for c in cas:
        const_arg(R, n, c.site, 1, {IDLE}, 'CAS-expected=IDLE')
        const_arg(R, n, c.site, 2, {PENDING}, 'CAS-new=PENDING')
    # return without trigger only under Err(NOTIFIED)
    for c in sites_of(cas):
        skip_arm = []
        for b in range(len(n.blocks)):
            t = n.blocks[b]['t']
            if t[0] == 'switch' and t[1][0] in ('c', 'm'):
                p = n.prov_operand(t[1])
                if p.root[0] == 'call' and p.root[1].key() == c.key() and 'as:Err' in p.path:
                    for v, tgt in t[2]:
                        skip_arm.append((v, b, tgt))
        ok_vals = [v for (v, b, tgt) in skip_arm]
        arm_sites = [core.Site(n, tgt, -1, ['arm-entry', 0]) for (v, b, tgt) in skip_arm if v == NOTIFIED]
        R.ob('ONLY-UNDER', 'ONLY-UNDER::%s::skip-arm-value' % fnkey(n), ok_vals == [NOTIFIED], 'the only value-specific arm on the failed CAS is %s; required [NOTIFICATION_STATE_NOTIFIED=%s]' % (ok_vals, NOTIFIED), c.where, n)
        pth = n.exists_path(c, n.ret_sites(), trig_calls + arm_sites)
        R.ob('NO-PATH', 'NO-PATH::%s::return-without-trigger-only-on-NOTIFIED' % fnkey(n), pth is None and bool(arm_sites),
             'after the state CAS every path to a return passes the trigger or the Err(NOTIFIED) arm%s' % ('' if pth is None else ' -- bypass %s' % pth), c.where, n)
    # ---- trigger closure: set_state_to_notified only after handle.notify returned
    hn = trig.calls(r'HandlerInterface.*::notify$')
    sn = trig.calls(re.escape(set_notified.id) + '$')
    dom(R, trig, hn, sn, 'handle.notify()<set_state_to_notified', 'NOTIFIED promises that a trigger is pending')
    R.floor('set_state_to_notified call sites', len(sn), 2)
    # never after a propagated error: each set_state call lies under Ok or under BufferIsFull
    for c in atomics(set_notified, NS, 'compare_exchange(_weak)?'):
        const_arg(R, set_notified, c.site, 1, {PENDING}, 'CAS-expected=PENDING')
        const_arg(R, set_notified, c.site, 2, {NOTIFIED}, 'CAS-new=NOTIFIED')
    ord_floor(R, set_notified, NS, 'compare_exchange(_weak)?', 0, 'SC', 'flag access')
    # ---- drain_events
    d = F.fn(DRAIN)
    dcl = F.closures_of(d, recursive=False)
    drain_cl = [c for c in dcl if c.calls(r'EventState.*::drain$')]
    if len(drain_cl) != 1:
        R.missing('drain closure')
        return
    drain_cl = drain_cl[0]
    cas = ord_floor(R, d, NS, 'compare_exchange(_weak)?', 0, 'SC', 'listener\'s flag write before its id read')
    st = ord_floor(R, d, NS, 'store', 0, 'SC', 'listener\'s flag write before its id read')
    for c in cas:
        const_arg(R, d, c.site, 1, {NOTIFIED}, 'CAS-expected=NOTIFIED')
        const_arg(R, d, c.site, 2, {IDLE}, 'CAS-new=IDLE')
    for s in st:
        const_arg(R, d, s.site, 1, {IDLE}, 'store=IDLE')
    drains = d.calls(re.escape(drain_cl.id) + '$')
    R.floor('drain() call sites', len(drains), 2)
    waits = lib.param_calls(d, 'wait_call', 4)
    dom(R, d, waits, sites_of(st), 'wait_call()<store(IDLE)', 'the flag is forced to IDLE only after the wait returned')
    # each drain call: under is_ok arm of the CAS, or dominated by the store
    for dr in drains:
        ok = any(d.dominates(s.site, dr) for s in st)
        if not ok:
            ok = any(lib.under_arm(d, F, dr, c.site, ('Ok',)) for c in cas)
        R.ob('DOM', 'DOM::%s::state-reset<drain' % fnkey(d), ok, 'drain() is reached only after the flag was reset to IDLE (CAS-ok arm or the store)', dr.where, d)
    eb = drain_cl.calls(r'WaiterInterface.*::empty_buffer$')
    ed = drain_cl.calls(r'EventState.*::drain$')
    dom(R, drain_cl, eb, ed, 'empty_buffer<event.drain', 'a trigger arriving after the buffer was emptied stays pending for the next wait')
    # ---- BitSet::set_bit / clear_bit: several ids share one atomic word; a failed compare_exchange (another id of the same word changed, or the
    # listener swapped the word to 0) must be retried - giving up silently drops a notified id
    for nm in ('set_bit', 'clear_bit'):
        for g in F.find_fns(r'^iceoryx2_bb_lock_free::mpmc::bit_set::details::BitSet::<.*>::%s$' % nm):
            cs_ = [a for a in g.atomic_ops() if a.op.startswith('compare_exchange')]
            for a in cs_:
                back = g.exists_path(a.site, [a.site], [])
                R.ob('LOOP', 'LOOP::%s::failed-CAS-is-retried' % fnkey(g), back is not None, 'the word CAS of %s lies on a cycle (retry loop): %s' % (nm, 'yes' if back is not None else 'NO - a failed exchange is not retried, the bit of this id is lost when a neighbouring id changes the word concurrently'), a.site.where, g)
            if not cs_:
                R.ob('LOOP', 'LOOP::%s::failed-CAS-is-retried' % fnkey(g), False, 'anchor-missing: no compare_exchange in %s' % nm, '%s:%s' % (g.file, g.line), g)
    # ---- trigger tokens are consumed only by the drain protocol: inside drain_events (fast-path empty_buffer) or as the `wait_call` closure a
    # Listener wrapper hands to drain_events; a wrapper that consumes a token itself (e.g. a clean-up empty_buffer after the drain) swallows
    # the wake-up of a notifier that set its id after the drain passed it
    cons = [s_ for s_ in F.callers_of(r'event::trigger::WaiterInterface::(empty_buffer|try_wait|timed_wait|blocking_wait)$') if s_.fn.id.startswith('iceoryx2_cal::event::common::') or s_.fn.id.startswith('<iceoryx2_cal::event::common::')]
    nc = 0
    for s_ in cons:
        g = s_.fn
        ok = False
        why = 'called in %s' % g.id.rsplit('::', 2)[-2:]
        if g.kind == 'closure':
            par = F.fn_opt(g.parent) if g.parent else None
            if par is not None and par.id.endswith('::drain_events'):
                ok = True
            elif par is not None:
                # the closure is passed to drain_events by its parent
                for d in par.calls(r'Waiter::<.*>::drain_events$'):
                    for a in d.args:
                        pr = par.prov_operand(a)
                        if pr.root[0] == 'agg' and g.id in str(pr.root[1]):
                            ok = True
        nc += 1
        R.ob('WHO-MAY-CALL', 'WHO-MAY-CALL::%s::token-consumed-only-by-the-drain-protocol::%s' % (fnkey(g), s_.callee.rsplit('::', 1)[-1]), ok, '%s consumes a trigger token; it lies inside drain_events or is the wait_call closure handed to drain_events (%s)' % (core.short(s_.callee), why), s_.where, g)
    R.floor('token-consuming WaiterInterface calls in event::common', nc, 4)
    # ---- no phantom ids: reset_all callbacks get indices derived from the swap result only under a bit test of it
    for path, swap_ty in (('iceoryx2_bb_lock_free::mpmc::bit_set::details::BitSet::<PointerType>::reset_all', 'u8'),):
        f = F.fn(path)
        sw = atomics(f, None, 'swap')
        cb = [s for s in f.sites if s.is_call and re.search(r'FnMut.*::call_mut$', s.callee or '')]
        key = 'FLOW::%s::callback-guarded-by-swap-result' % fnkey(f)
        if len(sw) == 1 and not cb and any(c_.calls(orig=r'FnMut.*call_mut$|Fn.*::call') or [s_ for s_ in c_.sites if s_.is_call and re.search(r'FnMut.*::call_mut$', s_.callee or '')] for c_ in F.closures_of(f)):
            # the bit loop is written as an iterator chain (`(0..BITS).filter(|b| value & (1 << b) != 0).for_each(|b| callback(..))`): the
            # guard is a predicate closure, which this rule does not interpret
            const_arg(R, f, sw[0].site, 1, {0}, 'swap-clears', 'each set bit is reported once')
            R.notes.append('%s: the callback is invoked from a closure of an iterator chain - guard not judged' % key)
        elif len(sw) != 1 or not cb:
            R.ob('FLOW', key, False, 'anchor-missing: swap / callback', f.file, f)
        else:
            const_arg(R, f, sw[0].site, 1, {0}, 'swap-clears', 'each set bit is reported once')
            for c in cb:
                conds = [sym_nstr(sym(f, f.blocks[b]['t'][1])) for (b, tgt) in lib.guard_switches(f, c)]
                R.ob('FLOW', key, any('Atomic::swap' in x and '&' in x for x in conds), 'callback guarded by %s; required a bit test of the swap(0) result' % conds[:3], c.where, f)
    # counting bit set
    cands = F.find_fns(r'^iceoryx2_bb_lock_free::mpmc::counting_bit_set::details::CountingBitSet::<.*>::reset_all$')
    if len(cands) != 1:
        R.missing('CountingBitSet::reset_all')
    else:
        f = cands[0]
        sw = atomics(f, None, 'swap')
        cb = [s for s in f.sites if s.is_call and re.search(r'FnMut.*::call_mut$', s.callee or '')]
        key = 'FLOW::%s::callback-guarded-by-swap-result' % fnkey(f)
        if not sw or not cb:
            R.ob('FLOW', key, False, 'anchor-missing: swap / callback', f.file, f)
        else:
            for c in cb:
                conds = [sym_nstr(sym(f, f.blocks[b]['t'][1])) for (b, tgt) in lib.guard_switches(f, c)]
                args = ' '.join(sym_nstr(sym(f, a)) for a in c.args[1:])
                R.ob('FLOW', key, any('Atomic::swap' in x for x in conds) or 'Atomic::swap' in args, 'callback guarded by %s' % conds[:3], c.where, f)
    # event-state activate: bounds check before set
    for f in F.find_fns(r'^iceoryx2_cal::event::event_state::(bit_set|counting_bit_set)::<impl .*EventState for .*>::activate$'):
        errs = lib.agg_sites(f, r'EventStateActivateError$', 'EventIdOutOfBounds')
        sets = f.calls(r'::set$|::increment$|::set_and_count|::add$')
        key = 'DOM::%s::bounds-test<set' % fnkey(f)
        if not errs or not sets:
            R.ob('DOM', key, False, 'anchor-missing: out-of-bounds exit (%d) / set call (%d)' % (len(errs), len(sets)), f.file, f)
            continue
        gs = lib.guard_switches(f, errs[0])
        ok = bool(gs) and all(f.dominates(f.term_site(gs[0][0]), s) for s in sets)
        R.ob('DOM', key, ok, 'the EventIdOutOfBounds test dominates the bit-set write', sets[0].where, f)
    R.floor('EventState::activate impls', len(F.find_fns(r'^iceoryx2_cal::event::event_state::(bit_set|counting_bit_set)::<impl .*EventState for .*>::activate$')), 2)
    # ---- trigger siblings
    cls = {'try_wait': 'try', 'timed_wait': 'timed', 'blocking_wait': 'blocking', 'empty_buffer': 'try'}
    prim = re.compile(r'::(try|timed|blocking)_(wait|receive)$')
    impls = 0
    for f in F.find_fns(r'^<iceoryx2_cal::event::trigger::(semaphore|socket_pair|unix_datagram_socket)::\w+<.*> as iceoryx2_cal::event::trigger::WaiterInterface<.*>>::(try_wait|timed_wait|blocking_wait|empty_buffer)$'):
        m = f.id.rsplit('::', 1)[-1]
        want = cls[m]
        found = []
        for body in [f] + F.closures_of(f):
            for s in body.sites:
                if s.is_call and s.callee and s.callee.startswith('iceoryx2_bb_posix::'):
                    mm = prim.search(s.callee)
                    if mm:
                        found.append((mm.group(1), s))
        key = 'SIBLINGS::%s::blocking-class' % fnkey(f)
        if not found:
            R.ob('SIBLINGS', key, False, 'anchor-missing: no posix wait/receive primitive reached', f.file, f)
            continue
        impls += 1
        for c_, s in found:
            R.ob('SIBLINGS', key, c_ == want, '%s reaches posix `%s` (class %s); required class %s' % (m, core.short(s.callee), c_, want), s.where, f)
    R.floor('trigger wait methods', impls, 12)


LEVEL_TEXT = ("Decides on all CFG paths the step order of notify and wait, the SeqCst class and constants of the notification flag protocol, "
              "the single skip condition of the trigger, id provenance in reset_all and the blocking class of every trigger back-end method. "
              "Necessary conditions of no-lost-wake-up/no-phantom; Also: the notifier's fan-out loop ranges over every connection slot, failed bit CASes are retried. Interleaving-level behaviour is not decided.")
LEVEL_NOTE = "Trusted: rustc MIR; protocol table of DESIGN.md C05. Not decided: behaviour over schedules; weak-memory adequacy of the relaxed bit-set accesses (noted in DESIGN.md)."
TECHNIQUE = "static analysis: MIR dominance, ordering/constant-argument rules, path rules on the skip condition, sibling cross-check of trigger back-ends"
