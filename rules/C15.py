"""C15 - shm allocators: size/alignment rejection dominates bucket acquisition, offset pack/unpack use one shift, the stride used
for addressing equals the stride used for counting, offsets are segment-relative on both sides, segments are unmapped only when
their last chunk is back."""
import re
from . import core, lib
from .core import sym, sym_nstr, sym_norm
from .lib import dom, pdom, no_path, atomics, sites_of, fnkey, const_arg, check_before_effects, agg_sites

EXPLANATION = (
    "Static rules: DOM (SizeTooLarge / AlignmentFailure tests dominate acquire_raw_index in the bucket allocator; alignment / size "
    "refusals dominate the inner call in the shm pool allocator's allocate/grow; the bump allocator's bounds test dominates the "
    "position CAS and is re-evaluated per retry); SYM-EQ stride agreement (the expression stored in PoolAllocator.bucket_size, the "
    "multiplier in allocate, the divisor in get_index and the divisor in calc_number_of_buckets must be one term) and offset packing "
    "(shift in from_offset_and_segment_id = shift in offset(); segment_id() mask = set_segment_id mask, all from "
    "SegmentIdUnderlyingType::BITS); segment-relative offsets on both sides (allocate subtracts start_address, deallocate_bucket "
    "adds start_address); ONLY-UNDER (each shared_memory_map.remove lies under chunk_count == 0 / unregister_offset == Empty); PAIR "
    "(allocate/grow register an offset on the segment they hand memory out of). The arithmetic for all layouts and data survival "
    "across growth are not decided.")
NOT_DECIDED = "the allocator arithmetic itself for all layouts; payload survival across segment growth"

PA = 'iceoryx2_bb_memory::pool_allocator::PoolAllocator'


def bucket_allocator(F, R):
    al = F.find_fns(r'^<' + re.escape(PA) + r' as iceoryx2_bb_elementary_traits::allocator::Allocate<.*>>::allocate$')
    if len(al) != 1:
        R.missing('PoolAllocator::allocate')
        return
    al = al[0]
    acq = al.calls(r'UniqueIndexSet::acquire_raw_index$')
    for v in ('SizeTooLarge', 'AlignmentFailure'):
        errs = agg_sites(al, r'AllocationError$', v)
        rc = check_before_effects(R, al, errs, acq, '%s-test<acquire_raw_index' % v, 'a request that cannot be satisfied fails with the documented error instead of taking a bucket')
        if rc:
            l, rel, r, g = rc
            want = 'size' if v == 'SizeTooLarge' else 'align'
            ok = rel in ('>', '<') and want in l and want in r.replace('alignment', 'align')
            R.ob('CMP', 'CMP::%s::%s-shape' % (fnkey(al), v), ok, 'refusal condition `%s %s %s` (request compared with the bucket %s)' % (l, rel, r, want), g.where, al)
    # ---- stride agreement
    def canon(t):
        # express everything over the bucket layout: self.bucket_size is whatever new_uninit stored
        s_ = sym_nstr(t) if isinstance(t, tuple) else t
        return re.sub(r'Layout::align\(\w+\)', 'ALIGN', re.sub(r'Layout::size\(\w+\)', 'SIZE', s_))
    terms = {}
    nu = F.fn(PA + '::new_uninit')
    for a in agg_sites(nu, r'pool_allocator::PoolAllocator$'):
        names = a.node[2][1][3]
        if 'bucket_size' in names:
            terms['stored bucket_size (new_uninit)'] = (sym_norm(sym(nu, a.node[2][2][names.index('bucket_size')])), a)
    cn = F.fn(PA + '::calc_number_of_buckets')
    divs = [s for s in cn.sites if s.i != 'T' and s.node[0] == 'a' and s.node[2][0] == 'bin' and s.node[2][1] == 'Div']
    if len(divs) == 1:
        terms['divisor in calc_number_of_buckets'] = (sym_norm(sym(cn, divs[0].node[2][3])), divs[0])
    gi = F.fn(PA + '::get_index')
    divs = [s for s in gi.sites if s.i != 'T' and s.node[0] == 'a' and s.node[2][0] == 'bin' and s.node[2][1] == 'Div']
    if len(divs) == 1:
        terms['divisor in get_index'] = (sym_norm(sym(gi, divs[0].node[2][3])), divs[0])
    # index * stride, in allocate itself or in a private helper it delegates the address computation to
    muls = [s for g_ in lib.family(F, al) for s in g_.sites if s.i != 'T' and s.node[0] == 'a' and s.node[2][0] == 'bin' and s.node[2][1] == 'Mul']
    if len(muls) == 1:
        m = muls[0]
        a_, b_ = sym_norm(sym(m.fn, m.node[2][2])), sym_norm(sym(m.fn, m.node[2][3]))
        is_index = lambda op, t_: 'acquire_raw_index' in sym_nstr(t_) or (m.fn is not al and op[0] in ('c', 'm') and m.fn.prov_operand(op).root[0] == 'arg' and m.fn.prov_operand(op).root[1] >= 2)
        t = b_ if is_index(m.node[2][2], a_) else a_
        terms['multiplier in allocate'] = (t, m)
    R.floor('stride expressions found', len(terms), 4)

    stored = terms.get('stored bucket_size (new_uninit)')
    stored = (stored[0], stored[1]) if stored else None
    for nm, (t, site) in sorted(terms.items()):
        s_ = canon(t)
        if s_ == 'self.bucket_size' and stored:
            s_ = canon(stored[0])
        terms[nm] = (s_, site)
    vals = set(v[0] for v in terms.values())
    anchor = terms.get('divisor in calc_number_of_buckets') or list(terms.values())[0]
    R.ob('SYM-EQ', 'SYM-EQ::%s::stride-agreement' % PA, len(vals) == 1,
         '; '.join('%s = `%s`' % (nm, s_) for nm, (s_, site) in sorted(terms.items())) + ' - the stride used for addressing must equal the stride used for counting (otherwise buckets of a layout with size %% align != 0 are misaligned / miscounted)', anchor[1].where, anchor[1].fn)
    # FixedSizePoolAllocator::new has its own copy of the construction
    fx = F.find_fns(r'^iceoryx2_bb_memory::pool_allocator::FixedSizePoolAllocator::<.*>::new$')
    if len(fx) != 1:
        R.missing('FixedSizePoolAllocator::new')
    else:
        g = fx[0]
        st2 = None
        for a in agg_sites(g, r'pool_allocator::PoolAllocator$'):
            names = a.node[2][1][3]
            if 'bucket_size' in names:
                st2 = (canon(sym_norm(sym(g, a.node[2][2][names.index('bucket_size')]))), a)
        divs = [s for s in g.sites if s.i != 'T' and s.node[0] == 'a' and s.node[2][0] == 'bin' and s.node[2][1] == 'Div']
        dv = canon(sym_norm(sym(g, divs[0].node[2][3]))) if len(divs) == 1 else None
        # expand padded_bucket_size(layout) consistently with the heap variant's stored term
        ref = canon(stored[0]) if stored else None
        R.ob('SYM-EQ', 'SYM-EQ::iceoryx2_bb_memory::pool_allocator::FixedSizePoolAllocator::stride-agreement', st2 is not None and dv is not None and st2[0] == dv and (ref is None or st2[0] == ref),
             'FixedSizePoolAllocator::new: stored bucket_size = `%s`, bucket-count divisor = `%s`, PoolAllocator::new_uninit stores `%s`' % (st2[0] if st2 else None, dv, ref), st2[1].where if st2 else g.file, g)
    # the number of buckets is counted from the ALIGNED start to the end of the block: (ptr + size - align(ptr, a)) / stride
    cn = F.find_fns(r'^iceoryx2_bb_memory::pool_allocator::PoolAllocator::calc_number_of_buckets$')
    if len(cn) != 1:
        R.missing('PoolAllocator::calc_number_of_buckets')
    else:
        t = sym_nstr(sym(cn[0], ['c', [0]]))
        pl, pp, ps = (r'\$%d' % lib.param_index(cn[0], n_, i_) for n_, i_ in (('bucket_layout', 1), ('ptr', 2), ('size', 3)))
        ok = re.search(r'\(\(cast(<\w+>)?\(%s\) \+ %s\) - math::align\(cast(<\w+>)?\(%s\), Layout::align\(%s\)\)\) /' % (pp, ps, pp, pl), lib.canon(cn[0], t)) is not None
        R.ob('SYM-EQ', 'SYM-EQ::%s::bucket-count-from-aligned-start' % PA, ok, 'number of buckets = `%s` ; required ((ptr + size) - align(ptr, bucket alignment)) / stride: the buckets start at the aligned address, counting from the unaligned one yields a bucket that ends behind the block' % t[:220], '%s:%s' % (cn[0].file, cn[0].line), cn[0])
        users = [c for c in F.callers_of(r'PoolAllocator::calc_number_of_buckets$') if c.fn.id.endswith('::new_uninit')]
        R.ob('FLOW', 'FLOW::%s::new_uninit-sizes-the-index-set-with-the-bucket-count' % PA, len(users) == 1 and any('calc_number_of_buckets' in sym_nstr(sym(nu, c.args[0])) for c in nu.calls(r'UniqueIndexSet( as .*)?>?::new_uninit$')), 'UniqueIndexSet::new_uninit(calc_number_of_buckets(..)) in new_uninit', users[0].where if users else nu.file, nu)
    # start is aligned to the bucket alignment
    for a in agg_sites(nu, r'pool_allocator::PoolAllocator$'):
        names = a.node[2][1][3]
        if 'start' in names:
            t = sym_nstr(sym(nu, a.node[2][2][names.index('start')]))
            R.ob('SYM-EQ', 'SYM-EQ::%s::start-aligned' % PA, 'align(' in t and 'Layout::align(bucket_layout)' in t, 'start = %s ; required the block start aligned to the bucket alignment' % t[:200], a.where, nu)


def offset_packing(F, R):
    P = 'iceoryx2_cal::shm_allocator::pointer_offset::PointerOffset::'
    mk = F.fn(P + 'from_offset_and_segment_id')
    off = F.fn(P + 'offset')
    sid = F.fn(P + 'segment_id')
    ssid = F.fn(P + 'set_segment_id')
    t_mk = sym_norm(core.sym_place(mk, [0]))
    t_off = sym_norm(core.sym_place(off, [0]))
    t_sid = sym_norm(core.sym_place(sid, [0]))
    shl = lib.find_subterm(t_mk, lambda x: x[0] == '<<' and 'offset' in sym_nstr(x[1]))
    shr = lib.find_subterm(t_off, lambda x: x[0] == '>>')
    R.ob('SYM-EQ', 'SYM-EQ::PointerOffset::pack-shift=unpack-shift', shl is not None and shr is not None and sym_nstr(shl[2]) == sym_nstr(shr[2]),
         'from_offset_and_segment_id shifts the offset left by `%s`, offset() shifts right by `%s`' % (sym_nstr(shl[2]) if shl else None, sym_nstr(shr[2]) if shr else None), '%s:%s' % (mk.file, mk.line), mk)
    m1 = lib.find_subterm(t_sid, lambda x: x[0] == '&')
    m1s = sym_nstr(m1) if m1 else ''
    # set_segment_id: self.0 &= !mask ; |= value
    masks = [s for s in ssid.sites if s.i != 'T' and s.node[0] == 'a' and s.node[2][0] in ('bin', 'un')]
    txt = ' ; '.join(sym_nstr(sym(ssid, ['c', s.node[1]])) if False else sym_nstr(core.sym_norm(_rv(ssid, s))) for s in masks)
    shift = shl[2][1] if shl and shl[2][0] == 'c' else None
    want_mask = (1 << shift) - 1 if shift is not None else None
    mask_ok = m1 is not None and any(x == ('c', want_mask) for x in (m1[1], m1[2])) and ('Not(%s)' % want_mask) in txt
    R.ob('SYM-EQ', 'SYM-EQ::PointerOffset::segment-mask-matches-shift', mask_ok,
         'segment_id() = %s ; set_segment_id uses %s ; both masks must be (1 << %s) - 1 = %s' % (m1s[:120], txt[:200], shift, want_mask), '%s:%s' % (sid.file, sid.line), sid)
    # the OR-ed segment id occupies the low bits only
    orr = lib.find_subterm(t_mk, lambda x: x[0] == '|')
    R.ob('SYM-EQ', 'SYM-EQ::PointerOffset::id-in-low-bits', orr is not None and 'SegmentId::value' in sym_nstr(orr), 'packed value = %s' % sym_nstr(t_mk)[:160], '%s:%s' % (mk.file, mk.line), mk)


def _rv(fn, s):
    rv = s.node[2]
    if rv[0] == 'bin':
        return (core._BIN.get(rv[1], rv[1]), sym(fn, rv[2]), sym(fn, rv[3]))
    if rv[0] == 'un':
        return (rv[1], sym(fn, rv[2]))
    return ('?', rv[0])


def shm_pool(F, R):
    SP = 'iceoryx2_cal::shm_allocator::pool_allocator::'
    al = F.find_fns(r'^<' + re.escape(SP) + r"InitializedPoolAllocator<'.*> as iceoryx2_bb_elementary_traits::allocator::Allocate<.*>>::allocate$")
    if len(al) != 1:
        R.missing('InitializedPoolAllocator::allocate')
    else:
        f = al[0]
        inner = f.calls(r'Allocate<.*>>::allocate$')
        inner = [c for c in inner if c.callee != f.id]
        errs = agg_sites(f, r'AllocationError$', 'AlignmentFailure')
        check_before_effects(R, f, errs, inner, 'alignment-refusal<inner-allocate', 'an over-aligned request takes no bucket')
        fa = sites_of(atomics(f, r'number_of_used_buckets$', 'fetch_add'))
        dom(R, f, inner, fa, 'inner-allocate<used-bucket-count++', 'only successful allocations are counted')
        for o in f.ok_exit_sites():
            t = sym_nstr(sym(f, o.node[2][2][0]))
            R.ob('SYM-EQ', 'SYM-EQ::%s::offset=chunk-start_address' % fnkey(f), bool(re.search(r'- cast\(PoolAllocator::start_address\(self\.0\.allocator\)\)', t)) or ('start_address' in t and ' - ' in t), 'returned offset = %s' % t[:200], o.where, f)
    de = F.fn(SP + 'PoolAllocator::deallocate_bucket')
    inner = de.calls(r'pool_allocator::PoolAllocator::deallocate_bucket$')
    inner = [c for c in inner if c.callee != de.id]
    for c in inner:
        t = sym_nstr(sym(de, c.args[1]))
        R.ob('SYM-EQ', 'SYM-EQ::%s::address=offset+start_address' % fnkey(de), 'start_address' in t and '+' in t and 'offset' in t and 'base_address' not in t, 'deallocated address = %s ; required offset + start_address (the same base allocate subtracted)' % t[:200], c.where, de)
    R.floor('inner deallocate_bucket calls', len(inner), 1)
    gr = F.find_fns(r'^<' + re.escape(SP) + r"InitializedPoolAllocator<'.*> as iceoryx2_bb_elementary_traits::allocator::Grow<.*>>::grow$")
    if len(gr) == 1:
        g = gr[0]
        n = 0
        for v in ('AlignmentFailure', 'GrowWouldShrink', 'OutOfMemory'):
            errs = agg_sites(g, r'AllocationGrowError$', v)
            if errs:
                n += 1
        R.floor('grow refusals', n, 3)
    # resize_hint: Static never changes layout or count
    rh = F.find_fns(r'^<' + re.escape(SP) + r'PoolAllocator as iceoryx2_cal::shm_allocator::ShmAllocator>::resize_hint$')
    if len(rh) != 1:
        R.missing('PoolAllocator::resize_hint')
    else:
        h = rh[0]
        sw = []
        for b in range(len(h.blocks)):
            si = h.switch_info(b)
            if si and (si.get('enum_ty') or '').endswith('AllocationStrategy'):
                sw.append((b, si))
        R.floor('matches on AllocationStrategy in resize_hint', len(sw), 2)
        for b, si in sw:
            for lab, tgt in lib.arm_blocks(h, b, lambda l: l == 'Static', F):
                # the Static arm assigns the current value: no arithmetic in the arm's first block
                blk = h.blocks[tgt]
                arith = [s for s in blk['s'] if s[0] == 'a' and s[2][0] == 'bin' and s[2][1] in ('Add', 'Mul')]
                calls = [h.term_site(tgt)] if blk['t'][0] == 'call' else []
                ok = not arith and all(re.search(r'number_of_buckets$|Layout', c.callee or '') for c in calls)
                R.ob('ONLY-UNDER', 'ONLY-UNDER::%s::Static-keeps-current-value' % fnkey(h), ok, 'the Static arm (bb%d) returns the current layout / bucket count unchanged' % tgt, h.term_site(b).where, h)


def bump(F, R):
    fs = F.find_fns(r'^<iceoryx2_bb_elementary::bump_allocator::BumpAllocator as iceoryx2_bb_elementary_traits::allocator::Allocate<.*>>::allocate$')
    if len(fs) != 1:
        R.missing('BumpAllocator::allocate')
        return
    f = fs[0]
    cas = atomics(f, r'addr_next_free_memory$', 'compare_exchange(_weak)?')
    errs = agg_sites(f, r'AllocationError$', 'OutOfMemory')
    ok_arms = []
    for c in cas:
        for b in lib.switches_on_result_of(f, c.site):
            for lab, tgt in lib.arm_blocks(f, b, lambda l: l == 'Ok', F):
                ok_arms.append(core.Site(f, tgt, -1, ['CAS-Ok arm', c.site.line]))
    rc = check_before_effects(R, f, errs, ok_arms, 'bounds-test<successful-position-CAS', 'memory beyond the block is never handed out')
    for c in cas:
        g0 = lib.guard_switches(f, errs[0]) if errs else []
        if g0:
            R.ob('DOM', 'DOM::%s::bounds-test-dominates-CAS' % fnkey(f), f.dominates(f.term_site(g0[0][0]), c.site), 'the bounds test dominates the position CAS', c.site.where, f)
    if errs and cas:
        gs = lib.guard_switches(f, errs[0])
        if gs:
            g = f.term_site(gs[0][0])
            p = f.exists_path(cas[0].site, sites_of(cas), [g])
            R.ob('LOOP', 'LOOP::%s::bounds-test-per-retry' % fnkey(f), p is None and all(f.dominates(g, c.site) for c in cas), 'the bounds test dominates the CAS and is re-evaluated after a failed CAS', g.where, f)
    rc = lib.oriented(rc, r'full_memory_size')
    if rc:
        R.ob('CMP', 'CMP::%s::bounds-shape' % fnkey(f), rc[1] == '>' and 'full_memory_size' in rc[2] and 'Layout::size' in rc[0], 'refusal condition `%s %s %s`' % rc[:3], rc[3].where, f)
    if rc and cas:
        # the tested quantity is exactly the new end of the used area (the value the CAS installs): testing the unaligned position lets the
        # alignment padding run past the end
        newv = sym_nstr(sym(f, cas[0].site.args[2]))
        R.ob('SYM-EQ', 'SYM-EQ::%s::bounds-test-on-the-installed-end' % fnkey(f), rc[0] == newv, 'bounds test compares `%s` ; the CAS installs `%s` ; required: the same term (aligned start + size)' % (rc[0][:160], newv[:160]), rc[3].where, f)
    z = agg_sites(f, r'AllocationError$', 'SizeIsZero')
    check_before_effects(R, f, z, ok_arms, 'zero-size-test<successful-position-CAS', 'a zero sized request is refused')


def dynamic_segments(F, R):
    D = 'iceoryx2_cal::resizable_shared_memory::dynamic::'
    n = 0
    for f in F.fn_list:
        if not f.file.endswith('resizable_shared_memory/dynamic.rs'):
            continue
        rm = f.calls(r'SlotMap.*::remove$|slotmap::.*::remove$')   # the only slot map of this file is the segment table (shared_memory_map)
        for c in rm:
            n += 1
            conds = [sym_nstr(sym(f, f.blocks[b]['t'][1])) for (b, tgt) in lib.guard_switches(f, c)]
            ok = any(('chunk_count' in x and '0' in x) or 'unregister_offset' in x or 'Empty' in x for x in conds)
            R.ob('ONLY-UNDER', 'ONLY-UNDER::%s::segment-removed-only-when-empty' % fnkey(f), ok, 'shared_memory_map.remove guarded by %s ; required chunk_count == 0 / unregister_offset() == Empty' % [x[:90] for x in conds[-3:]], c.where, f)
    R.floor('shared_memory_map.remove sites', n, 4)
    # ShmEntry::register/unregister step by one
    for nm, op in (('register_offset', 'fetch_add'), ('unregister_offset', 'fetch_sub')):
        fs = F.find_fns(r'^' + re.escape(D) + r'ShmEntry::<.*>::' + nm + '$')
        if len(fs) != 1:
            R.missing('ShmEntry::' + nm)
            continue
        g = fs[0]
        ops = atomics(g, r'chunk_count$', op)
        R.ob('CONST-ARG', 'CONST-ARG::%s::one-step' % fnkey(g), len(ops) == 1 and g.const_of(ops[0].site.args[1]) == 1, '%s does chunk_count.%s(1)' % (nm, op), ops[0].site.where if ops else g.file, g)
    # allocate / grow register an offset on every success path
    al = F.find_fns(r'^<' + re.escape(D) + r'DynamicMemory<.*> as iceoryx2_bb_elementary_traits::allocator::Allocate<.*>>::allocate$')
    if len(al) == 1:
        f = al[0]
        reg = f.calls(r'ShmEntry::<.*>::register_offset$')
        for o in f.ok_exit_sites():
            R.ob('PAIR', 'PAIR::%s::register_offset<Ok' % fnkey(f), any(f.dominates(r_, o) for r_ in reg), 'every successful allocation registered its offset on the segment it came from', o.where, f)
        R.floor('Ok exits of DynamicMemory::allocate', len(f.ok_exit_sites()), 1)
    else:
        R.missing('DynamicMemory::allocate (%d)' % len(al))
    # view side: register_and_translate_offset before use is C02/C01 territory; release_offset: unregister < receiver.release (C02)


def grow_segment(F, R):
    """F19: DynamicMemory::grow operates on the segment the old chunk belongs to and keeps that segment's id."""
    fs = F.find_fns(r'resizable_shared_memory::dynamic::DynamicMemory<.*> as .*allocator::Grow<.*>>::grow$')
    if len(fs) != 1:
        R.missing('DynamicMemory::grow (found %d)' % len(fs))
        return
    f = fs[0]
    gc = f.calls(r'allocator::Grow::grow$|ShmAllocator.*::grow$|::grow$')
    gc = [c for c in gc if c.fn is f and not (c.callee or '').endswith('DynamicMemory::grow')]
    R.floor('inner grow calls in DynamicMemory::grow', len(gc), 1)
    for c in gc:
        o = lib.origins(f, c.args[0])
        own = any(x.endswith('PointerOffset::segment_id') for x in o) and 'arg:2' in o
        cur = any(x.endswith('::current_segment') for x in o)
        R.ob('FLOW', 'FLOW::%s::grows-in-the-chunks-own-segment' % fnkey(f), own and not cur, 'the segment whose allocator grows the chunk is looked up with old_pointer.offset.segment_id() (%s) and is not current_segment() (%s): growing in the current segment returns the offset of an unrelated live chunk' % (own, cur), c.where, f)
    for c in f.calls(r'PointerOffset::set_segment_id$'):
        o = lib.origins(f, c.args[1])
        R.ob('FLOW', 'FLOW::%s::grown-chunk-keeps-its-segment-id' % fnkey(f), any(x.endswith('PointerOffset::segment_id') for x in o) and 'arg:2' in o and not any('current_idx' in x for x in o), 'set_segment_id(<id of old_pointer\'s segment>) after an in-place grow (origins: %s)' % sorted(core.short(x) if '::' in x else x for x in o)[:6], c.where, f)
    # relocation path: new chunk via self.allocate (bookkeeping per segment), old chunk released in its own segment
    al = f.calls(r'DynamicMemory<.*>::allocate$|allocator::Allocate.*::allocate$|::allocate$')
    de = f.calls(r'::deallocate$')
    R.ob('PAIR', 'PAIR::%s::relocation-allocates-and-releases' % fnkey(f), bool(al) and bool(de) and all(f.dominates(a, d) for a in al for d in de), 'when the own segment cannot grow the chunk: allocate() a new chunk (%d site(s)), then deallocate() the old one (%d site(s))' % (len(al), len(de)), (al + de)[0].where if (al + de) else f.file, f)


def header_layout_agreement(F, R):
    """The size reserved for [header | user header | payload] (all_headers_len, used by chunk_layout) and the address computations that place
    the user header and the payload (user_header_ptr_from_header, payload_ptr_from_header) are the same formula: with the header at address
    0, payload_ptr_from_header equals all_headers_len.  A disagreement reserves too little: a payload reaches into the neighbouring chunk."""
    M = 'iceoryx2::service::static_config::message_type_details::MessageTypeDetails::'
    try:
        ahl = sym_nstr(core.sym_place(F.fn(M + 'all_headers_len'), [0]))
        pp = sym_nstr(core.sym_place(F.fn(M + 'payload_ptr_from_header'), [0]))
        up = sym_nstr(core.sym_place(F.fn(M + 'user_header_ptr_from_header'), [0]))
    except core.AnchorMissing as e:
        R.missing(str(e))
        return
    strip = lambda t: re.sub(r'cast(<\w+>)?\(', '(', t)
    upz = strip(up).replace('(header)', '0').replace('(0 + ', '(').replace('(header + ', '(')
    ppz = strip(pp).replace('(MessageTypeDetails::user_header_ptr_from_header(self, header))', upz)
    norm = lambda t: re.sub(r'\(\(([^()]*)\)\)', r'(\1)', re.sub(r'\s+', ' ', t))
    def flat(t):
        prev = None
        while prev != t:
            prev = t
            t = re.sub(r'\(\((math::align\([^()]*(?:\([^()]*\)[^()]*)*\))\)', r'(\1', t)
            t = re.sub(r'^\((math::align\(.*\))\)$', r'\1', t)
            t = t.replace('((', '(').replace('))', ')') if False else t
        return t
    a, b = norm(strip(ahl)), norm(ppz)
    # compare modulo redundant parentheses
    key = lambda t: re.sub(r'[()]', '', t)
    R.ob('SYM-EQ', 'SYM-EQ::%sall_headers_len::agrees-with-payload-address' % M, key(a) == key(b), 'all_headers_len = `%s` ; payload_ptr_from_header(header = 0) = `%s` ; required equal (same alignment of the user header and of the payload in both)' % (a[:150], b[:150]), '%s:%s' % (F.fn(M + 'all_headers_len').file, F.fn(M + 'all_headers_len').line), F.fn(M + 'all_headers_len'))
    cl = sym_nstr(core.sym_place(F.fn(M + 'chunk_layout'), [0]))
    R.ob('FLOW', 'FLOW::%schunk_layout::uses-all_headers_len' % M, 'all_headers_len(self)' in cl and 'number_of_elements' in cl, 'chunk_layout = %s' % cl[:160], '%s:%s' % (F.fn(M + 'chunk_layout').file, F.fn(M + 'chunk_layout').line), F.fn(M + 'chunk_layout'))


def view_refcount(F, R):
    """Receiver side of a resizable segment (DynamicView): every offset that is translated for the user is registered in its segment's chunk
    count - on the arm that maps a new segment AND on the arm for an already mapped one; otherwise releasing one of several held samples of
    an old segment unmaps it under the others."""
    fs = [f for f in F.find_fns(r'resizable_shared_memory::dynamic::DynamicView<.*>::register_and_translate_offset$|resizable_shared_memory::dynamic::DynamicView<.*> as .*>::register_and_translate_offset$')]
    if len(fs) != 1:
        R.missing('DynamicView::register_and_translate_offset (found %d)' % len(fs))
        return
    f = fs[0]
    reg = f.calls(r'ShmEntry::<.*>::register_offset$|ShmEntry::register_offset$')
    oks = f.ok_exit_sites()
    pth = None
    for o in oks:
        pth = pth or f.exists_path(None, [o], reg, from_entry=True)
    R.ob('PAIR', 'PAIR::%s::every-translated-offset-is-registered' % fnkey(f), bool(reg) and bool(oks) and pth is None, 'every path to Ok(address) passes register_offset() (%d site(s))%s' % (len(reg), '' if pth is None else ' -- a path skips it: %s' % pth), reg[0].where if reg else '%s:%s' % (f.file, f.line), f)


VALIDATION = ('SizeIsZero', 'SizeTooLarge', 'AlignmentFailure', 'GrowWouldShrink', 'ShrinkWouldGrow')


def validation_before_success(F, R):
    """Every allocator entry point (allocate / grow / shrink of the bump, pool and shm allocators): a request that cannot be satisfied - too
    large, over-aligned, growing to a smaller size .. - is refused on EVERY path, i.e. the test that guards a validation refusal dominates
    every `Ok` exit.  A fast path that returns `Ok` before the alignment test hands out memory that does not satisfy the requested layout.
    (OutOfMemory depends on the allocator state and is not a validation.)"""
    n = 0
    pat = r'(iceoryx2_cal::shm_allocator::(pool|bump)_allocator|iceoryx2_bb_memory::(pool|bump|one_chunk)_allocator|iceoryx2_bb_elementary::bump_allocator).*::(allocate|grow|shrink)$'
    for f in F.find_fns(pat):
        if f.kind == 'closure':
            continue
        oks = f.ok_exit_sites()
        for e in f.err_exit_sites():
            if e.i == 'T' or not e.node[2][2]:
                continue
            p = f.prov_operand(e.node[2][2][0])
            v = None
            if p.root[0] == 'agg' and len(p.root[1][1]) > 2:
                v = p.root[1][1][2]
            elif p.root[0] == 'const':
                v = str(p.root[1][4] or p.root[1][1]).rsplit('::', 1)[-1]
            if v not in VALIDATION:
                continue
            gs = lib.guard_switches(f, e)
            if not gs:
                continue
            n += 1
            g = f.term_site(gs[0][0])
            bad = [o for o in oks if not f.dominates(g, o)]
            R.ob('DOM', 'DOM::%s::%s-test<every-Ok' % (fnkey(f), v), not bad, 'the %s test dominates %d of %d Ok exits%s' % (v, len(oks) - len(bad), len(oks), '' if not bad else ' -- Ok at %s is reachable without it' % bad[0].where), g.where, f)
    R.floor('validation refusals in allocator entry points', n, 12)


def check(F, R, tier):
    validation_before_success(F, R)
    header_layout_agreement(F, R)
    view_refcount(F, R)
    from . import C08
    C08.segment_size(F, R)   # the static data segment reserves the worst-case alignment slack (every configured chunk fits)
    grow_segment(F, R)
    lib.cas_loops_fresh(R, F, r'bump_allocator::BumpAllocator as .*Allocate', 1, 'a decision computed once before the loop is stale after the first failed CAS')
    bucket_allocator(F, R)
    offset_packing(F, R)
    shm_pool(F, R)
    bump(F, R)
    dynamic_segments(F, R)


LEVEL_TEXT = ("Decides: refusal tests dominate bucket acquisition in all allocators, the four stride expressions of the bucket allocator agree, offset "
              "packing and unpacking use the same shift/mask derived from one constant, offsets are relative to the same base on both sides, segments are "
              "unmapped only when empty. Necessary conditions of disjoint/aligned/in-bounds memory; Also: every validation refusal test of an allocator entry point dominates every Ok exit. The arithmetic for all layouts is not decided.")
LEVEL_NOTE = "Trusted: rustc MIR. Small structural part of the property."
TECHNIQUE = "static analysis: symbolic equality of stride/shift expressions, check-dominates-effect rules, only-under-arm rules"
