"""C11 - request-response routing: the response channel is opened with the request's id before delivery, both ends close the
channel in Drop, responses go to one connection/channel only, channel take-over is impossible while open."""
import re
from . import core, lib
from .core import sym, sym_nstr
from .lib import dom, pdom, no_path, atomics, sites_of, fnkey, const_arg

EXPLANATION = (
    "Static rules over MIR: DOM (set_channel_state(channel_id, request_id) < deliver_offset in ClientSharedState::send_request, so "
    "the channel is open with this request's id before any server sees the request); FLOW (the ids handed to the channel-state calls "
    "are the request's own channel_id/request_id fields); MUST-CALL (PendingResponse::drop -> close_channel + active_request_counter--; "
    "ActiveRequest::drop -> release_offset + close_channel); CONST-ARG (set_channel_state CASes from CHANNEL_STATE_CLOSED: a channel "
    "still open for an older request cannot be taken over; close_channel CASes to CLOSED from the expected id or id|hint only); "
    "WHO-MAY-CALL (responses are delivered with deliver_offset_to_connection using the ActiveRequest's own ids, never broadcast). "
    "Routing correctness over reuse histories is value-level and not decided.")
NOT_DECIDED = "routing correctness over histories with channel/request id reuse (run-time values); limits are shared with C08"


def stale_response_filter(F, R):
    # ---- the client-side stale-response filter: every PendingResponse::receive sibling compares the id of the RECEIVED response with its own request id
    sib = [f_ for f_ in F.find_fns(r'^iceoryx2::pending_response::PendingResponse::<.*>::receive(_custom_payload)?$') if f_.kind != 'closure']
    for f_ in sib:
        flav = re.sub(r'^.*PendingResponse::<(.*)>::.*$', lambda m_: 'payload[%s]' % m_.group(1).split(',')[3].strip().strip('[]').rsplit('::', 1)[-1], f_.id) + ('-slice' if ', [' in f_.id else '')
        key = 'SIBLINGS::%s::%s' % (fnkey(f_), flav)
        hit = None
        for b in range(len(f_.blocks)):
            t = f_.blocks[b]['t']
            if t[0] != 'switch':
                continue
            c_ = sym_nstr(sym(f_, t[1]))
            m_ = re.match(r'^(ne|eq)\((.*)\.request_id, (.*)\.request_id\)$', c_) or re.match(r'^\((.*)\.request_id (!=|==) (.*)\.request_id\)$', c_)
            if m_:
                g_ = [x for x in m_.groups() if x not in ('ne', 'eq', '!=', '==')]
                hit = (b, g_, c_)
        if hit is None:
            R.ob('SIBLINGS', key + '::filters-on-the-received-request_id', False, 'anchor-missing: no request_id comparison', '%s:%s' % (f_.file, f_.line), f_)
            continue
        b, g_, c_ = hit
        recv_side = [x for x in g_ if 'receive_impl(' in x]
        own_side = [x for x in g_ if 'receive_impl(' not in x and 'self.request' in x]
        R.ob('SIBLINGS', key + '::filters-on-the-received-request_id', len(recv_side) == 1 and len(own_side) == 1,
             'compares `%s.request_id` with `%s.request_id`; required: the header of the chunk returned by receive_impl() against self.request\'s header (the only barrier against a stale response in a reused channel)' % (g_[0][:60], g_[1][:60]), f_.term_site(b).where, f_)
        # Ok(Some(response)) only on the ids-equal arm
        somes = [a for a in lib.agg_sites(f_, r'core::option::Option$', 'Some')]
        neq = c_.startswith('ne(') or '!=' in c_
        tt, ff = lib.bool_switch_arms(f_, b)
        arm = ff if neq else tt
        under = [a for a in somes if f_.edge_dominates(b, arm, a.b)]
        R.ob('ONLY-UNDER', 'ONLY-UNDER::%s::%s::response-returned-only-if-ids-match' % (fnkey(f_), flav), bool(somes) and len(under) == len(somes), '%d of %d `Some(response)` results lie on the ids-equal arm' % (len(under), len(somes)), f_.term_site(b).where, f_)
    R.floor('PendingResponse::receive siblings', len(sib), 3)


def slot_identity(F, R):
    """F23: the server-side response operations address the client by a STORED slot index (connection_id).  Slots are reused for the next
    client and request / channel ids restart at 0 per client, so every such operation must check that the slot still belongs to the client
    the index was acquired for (compare the connection's receiver_port_id) - directly or through a helper that does."""
    S = 'iceoryx2::port::details::sender::Sender::<Service, Resource>::'
    n = 0
    for nm in ('has_disconnect_hint', 'has_channel_state', 'close_channel', 'deliver_offset_to_connection'):
        f = F.fn_opt(S + nm)
        if f is None:
            R.missing('Sender::%s' % nm)
            continue
        n += 1

        def checks(g, depth=0):
            for b in range(len(g.blocks)):
                t = g.blocks[b]['t']
                if t[0] == 'switch' and 'receiver_port_id' in sym_nstr(sym(g, t[1])):
                    return True
            for c_ in g.sites:
                if c_.is_call and c_.callee and re.search(r'PartialEq.*::(eq|ne)$', c_.callee) and any('receiver_port_id' in sym_nstr(sym(g, a)) for a in c_.args):
                    return True
            if depth < 2:
                for c_ in g.sites:
                    if c_.is_call and c_.callee and c_.callee.startswith('iceoryx2::port::details::sender::Sender::'):
                        h = F.fn_opt(c_.callee)
                        if h is not None and h is not g and checks(h, depth + 1):
                            return True
            return False
        uses_get = bool(f.calls(r'Sender::<.*>::get$|Sender::<.*>::get_connection_of$'))
        R.ob('FLOW', 'FLOW::%s::stored-slot-index-verified-against-client-id' % fnkey(f), uses_get and checks(f), 'Sender::%s(connection_id, ..) %s the receiver_port_id of the connection in that slot before acting: a stale ActiveRequest of a client that is gone would otherwise act on the client that took over the slot (response delivered to / channel closed for another client)' % (nm, 'compares' if checks(f) else 'never compares'), '%s:%s' % (f.file, f.line), f)
    R.floor('slot-addressed response operations of Sender', n, 4)


def check(F, R, tier):
    slot_identity(F, R)
    from . import C02
    C02.position_is_a_slot_index(F, R)   # a connection id is a slot index of the sender's connection table, never a rank
    lib.flavour_siblings(R, F, r'^iceoryx2::(port::server::Server|pending_response::PendingResponse)::<.*>::receive$', 'SIBLINGS', 'a request / response is handed out under the same conditions for every payload flavour', floor=2)
    # ---- client side
    cs = F.find_fns(r'^iceoryx2::port::client::ClientSharedState::<.*>::send_request$')
    if len(cs) != 1:
        R.missing('ClientSharedState::send_request')
        return
    f = cs[0]
    # the response channel is bound to (channel_id, request_id) by response_receiver.set_channel_state(..) - directly in send_request or
    # through a private helper that forwards its parameters (the helper may be inlined / renamed without changing behaviour)
    opened = []   # (site in send_request, channel operand, request operand)
    for c in f.calls(r'::set_channel_state$'):
        if 'response_receiver' in f.chain(c.args[0]):
            opened.append((c, c.args[1], c.args[2]))
    for c in f.sites:
        if not (c.is_call and c.callee and c.callee.startswith('iceoryx2::port::client::')):
            continue
        g = F.fn_opt(c.callee)
        if g is None:
            continue
        for sc in g.calls(r'::set_channel_state$'):
            pa, pb = g.prov_operand(sc.args[1]), g.prov_operand(sc.args[2])
            if pa.root[0] == 'arg' and pb.root[0] == 'arg' and not pa.path and not pb.path and 'response_receiver' in g.chain(sc.args[0]):
                opened.append((c, c.args[pa.root[1] - 1], c.args[pb.root[1] - 1]))
                R.ob('FLOW', 'FLOW::%s::forwards-ids' % fnkey(g), True, 'helper forwards its parameters %d, %d to response_receiver.set_channel_state' % (pa.root[1], pb.root[1]), sc.where, g)
    de = f.calls(r'Sender::<.*>::deliver_offset$')
    dom(R, f, [o[0] for o in opened], de, 'open-response-channel<deliver_offset', 'no server can answer into a channel that is not yet bound to this request')
    for (c, ca, ra) in opened:
        pa, pb = f.prov_operand(ca), f.prov_operand(ra)
        ok = pa.root[0] == 'arg' and pb.root[0] == 'arg' and pa.root[1] != pb.root[1] and not pa.path and not pb.path
        R.ob('FLOW', 'FLOW::%s::channel-opened-with-own-ids' % fnkey(f), ok, 'the channel is opened with send_request\'s own parameters (%s, %s)' % (pa.render(), pb.render()), c.where, f)
    R.floor('sites binding the response channel in send_request', len(opened), 1)
    # RequestMut::send passes its own channel id and header request id
    rs = [c for c in F.find_fns(r'^iceoryx2::request_mut::RequestMut::<.*>::send::\{closure#0\}$')]
    n = 0
    for c in rs:
        for x in c.calls(r'ClientSharedState::<.*>::send_request$'):
            n += 1
            a = [sym_nstr(sym(c, y)) for y in x.args[1:]]
            R.ob('FLOW', 'FLOW::%s::own-channel-and-request-id' % fnkey(c), 'channel_id' in a[1] and 'request_id' in a[2] and 'header' in a[2], 'send_request(%s)' % ', '.join(z[:80] for z in a), x.where, c)
    R.floor('RequestMut::send -> send_request sites', n, 1)
    # ---- Drop obligations
    for pat, needs, nm in (
            (r'^<iceoryx2::pending_response::PendingResponse<.*> as core::ops::drop::Drop>::drop$', [(r'PendingResponse::<.*>::close$', 'close()')], 'PendingResponse'),
            (r'^<iceoryx2::active_request::ActiveRequest<.*> as core::ops::drop::Drop>::drop$', [(r'Receiver::<.*>::release_offset$', 'release_offset'), (r'ActiveRequest::<.*>::finish$', 'finish()')], 'ActiveRequest')):
        ds = F.find_fns(pat)
        if len(ds) != 1:
            R.missing('Drop for %s' % nm)
            continue
        d = ds[0]
        for cp, label in needs:
            cs_ = d.calls(cp)
            ok = bool(cs_) and d.exists_path(None, d.ret_sites(), cs_, from_entry=True) is None
            R.ob('MUST-CALL', 'MUST-CALL::Drop(%s)::%s' % (nm, label), ok, 'Drop of %s calls %s on every path' % (nm, label), cs_[0].where if cs_ else d.file, d)
        if nm == 'PendingResponse':
            subs = []
            for b in [d] + F.closures_of(d):
                subs += atomics(b, r'active_request_counter$', 'fetch_sub')
            R.ob('MUST-CALL', 'MUST-CALL::Drop(PendingResponse)::active_request_counter--', len(subs) == 1, 'the active-request slot is given back exactly once', subs[0].site.where if subs else d.file, d)
            for s in subs:
                const_arg(R, s.site.fn, s.site, 1, {1}, 'counter-step')
    for pat, callee, ids, nm in (
            (r'^iceoryx2::pending_response::PendingResponse::<.*>::close::\{closure#0\}$', r'::close_channel$', ('channel_id', 'request_id'), 'PendingResponse::close'),
            (r'^iceoryx2::active_request::ActiveRequest::<.*>::finish$', r'Sender::<.*>::close_channel$', ('channel_id', 'connection_id', 'request_id'), 'ActiveRequest::finish')):
        fs = F.find_fns(pat)
        if len(fs) != 1:
            R.missing(nm)
            continue
        g = fs[0]
        cc = g.calls(callee)
        key = 'FLOW::%s::closes-own-channel' % fnkey(g)
        if len(cc) != 1:
            R.ob('FLOW', key, False, 'anchor-missing: close_channel call (%d)' % len(cc), g.file, g)
            continue
        a = [sym_nstr(sym(g, y)) for y in cc[0].args[1:]]
        ok = all(any(i in x for x in a) for i in ids) and all(('self' in x or 'request' in x) for x in a)
        R.ob('FLOW', key, ok, 'close_channel(%s); required the object\'s own %s' % (', '.join(z[:60] for z in a), '/'.join(ids)), cc[0].where, g)
    # ---- channel state machine in the connection trait (default methods)
    Z = 'iceoryx2_cal::zero_copy_connection::ZeroCopyPortDetails::'
    sc = F.fn(Z + 'set_channel_state')
    cas = atomics(sc, None, 'compare_exchange(_weak)?')
    R.exact('CAS in set_channel_state', len(cas), 1)
    for c in cas:
        t = sym_nstr(sym(sc, c.site.args[1]))
        R.ob('CONST-ARG', 'CONST-ARG::%s::expected=CHANNEL_STATE_CLOSED' % fnkey(sc), 'CHANNEL_STATE_CLOSED' in t, 'set_channel_state CASes from `%s`: a channel still open for an older request cannot be taken over' % t, c.site.where, sc)
        t2 = sym_nstr(sym(sc, c.site.args[2]))
        R.ob('FLOW', 'FLOW::%s::new=state' % fnkey(sc), lib.param_is(sc, c.site.args[2], 'state', 3, ('.0',)), 'installs `%s`' % t2, c.site.where, sc)
    # result is_ok() is the return value (a refused open is reported)
    for c in cas[:1]:
        v, how = lib.returns_success_of(sc, F, c.site)
        if v is None:
            R.notes.append('FLOW::%s::returns-CAS-success: return shape not recognised (%s) - not judged' % (fnkey(sc), how))
        else:
            R.ob('FLOW', 'FLOW::%s::returns-CAS-success' % fnkey(sc), v, 'returns whether the channel could be opened (%s)' % how, c.site.where, sc)
    cc = F.fn(Z + 'close_channel')
    cas = atomics(cc, None, 'compare_exchange(_weak)?')
    R.floor('CAS in close_channel', len(cas), 2)
    for c in cas:
        e = sym_nstr(sym(cc, c.site.args[1]))
        n_ = sym_nstr(sym(cc, c.site.args[2]))
        hint = F.consts.get('iceoryx2_cal::zero_copy_connection::CHANNEL_STATE_DISCONNECT_HINT_BIT', {}).get('val')
        allowed = {'expected_state.0', '(%s | expected_state.0)' % hint, '(expected_state.0 | %s)' % hint}
        R.ob('CONST-ARG', 'CONST-ARG::%s::closes-only-own-state' % fnkey(cc), (e in allowed) and 'CHANNEL_STATE_CLOSED' in n_, 'close CAS `%s` -> %s: the compared value is exactly the caller\'s request id or id|disconnect-hint (%s); a channel that meanwhile belongs to another request (with or without its hint) is left alone' % (e[:120], n_, sorted(allowed)), c.site.where, cc)
    stores = [a for a in cc.atomic_ops() if a.op in ('store', 'swap')]
    R.ob('WHO-MAY-CALL', 'WHO-MAY-CALL::%s::no-unconditional-close' % fnkey(cc), not stores, 'close_channel never stores unconditionally (%d stores)' % len(stores), cc.file, cc)
    stale_response_filter(F, R)
    # ---- a received request chunk is either handed out (ActiveRequest owns it and releases it on drop) or released at once (F17b)
    for f_ in [x for x in F.find_fns(r'^iceoryx2::port::server::Server::<.*>::receive$') if x.kind != 'closure']:
        rcv = f_.calls(r'Server::<.*>::receive_impl$')
        own = f_.calls(r'Server::<.*>::create_active_request$') + f_.calls(r'Receiver::<.*>::release_offset$')
        flav = 'slice' if ', [' in f_.id or '<Service, [' in f_.id else 'sized'
        if not rcv:
            R.ob('PAIR', 'PAIR::%s::%s::received-chunk-owned-or-released' % (fnkey(f_), flav), False, 'anchor-missing: receive_impl call', '%s:%s' % (f_.file, f_.line), f_)
            continue
        # from the Some(chunk) arm of the receive result no path reaches the next receive_impl / a return without passing an owner
        bad = None
        for b in range(len(f_.blocks)):
            si = f_.switch_info(b)
            if si and 'discr_of' in si:
                p_ = f_.prov_place(si['discr_of'])
                if p_.root[0] == 'call' and p_.root[1].key() == rcv[0].key() and 'as:Continue' in p_.path or (p_.root[0] == 'call' and (p_.root[1].callee or '').endswith('::branch') and any(k_ == 'as:Continue' for k_ in p_.path)):
                    for lab, tgt in lib.arm_blocks(f_, b, lambda l: l == 'Some', F):
                        pth = f_.exists_path(core.Site(f_, tgt, -1, ['arm']), rcv + f_.ret_sites(), own)
                        if pth is not None:
                            bad = pth
        R.ob('PAIR', 'PAIR::%s::%s::received-chunk-owned-or-released' % (fnkey(f_), flav), bad is None, 'from the Some(chunk) arm of receive_impl() every path to the next receive_impl() / a return passes create_active_request() (the ActiveRequest releases on drop) or release_offset()%s: a discarded request must give its chunk back, otherwise the expired connection keeps a phantom borrow' % ('' if bad is None else ' -- path without owner %s' % bad), rcv[0].where, f_)
    # ---- responses are delivered to one connection/channel only
    n = 0
    for f2 in F.fn_list:
        if f2.crate != 'iceoryx2':
            continue
        if not re.search(r'^iceoryx2::(response_mut|active_request|port::server)', f2.id):
            continue
        for x in f2.calls(r'Sender::<.*>::deliver_offset$'):
            R.ob('WHO-MAY-CALL', 'WHO-MAY-CALL::broadcast-deliver_offset-on-server-side::%s' % fnkey(f2), False, 'a response path calls the broadcasting deliver_offset', x.where, f2)
        for x in f2.calls(r'Sender::<.*>::deliver_offset_to_connection$'):
            n += 1
            a = [sym_nstr(sym(f2, y)) for y in x.args[2:]]
            R.ob('FLOW', 'FLOW::%s::response-to-own-channel-and-connection' % fnkey(f2), 'channel_id' in a[0] and 'connection_id' in a[1], 'deliver_offset_to_connection(.., %s)' % ', '.join(a), x.where, f2)
    R.floor('response delivery sites', n, 1)
    # ---- ActiveRequest gets its ids from the received request
    srv = F.find_fns(r'^iceoryx2::port::server::Server::<.*>::(create_active_request|receive_impl|receive)')
    aggs = []
    for f3 in srv + sum((F.closures_of(x) for x in srv), []):
        aggs += [(f3, a) for a in lib.agg_sites(f3, r'active_request::ActiveRequest$')]
    for f3, a in aggs:
        names = a.node[2][1][3]
        vals = {nme: sym_nstr(sym(f3, a.node[2][2][i])) for i, nme in enumerate(names)}
        ok = 'channel_id' in vals and 'request_id' in vals and 'connection_id' in vals
        R.ob('FLOW', 'FLOW::%s::ActiveRequest-ids-from-request-header' % fnkey(f3), ok and ('header' in vals.get('channel_id', '') or 'header' in vals.get('request_id', '')), 'ActiveRequest{channel_id: %s, request_id: %s, connection_id: %s}' % (vals.get('channel_id', '?')[:80], vals.get('request_id', '?')[:80], vals.get('connection_id', '?')[:80]), a.where, f3)
    R.floor('ActiveRequest construction sites', len(aggs), 1)


LEVEL_TEXT = ("Decides on all CFG paths: the response channel is bound to the request id before delivery, both ends close their own channel in Drop, "
              "the channel state machine only opens from CLOSED and only closes the expected id, responses are never broadcast. Necessary conditions; "
              "routing over id-reuse histories is value-level and not decided.")
LEVEL_NOTE = "Trusted: rustc MIR. Small structural part of the property; limits are C08's clause."
TECHNIQUE = "static analysis: MIR dominance, argument-flow and constant-argument rules, must-call in Drop, who-may-call"
