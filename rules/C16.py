"""C16 - fixed-capacity containers: every storage flavour / wrapper forwards to the same-named operation, the capacity check
dominates the first write, every flavour's Drop reaches element drop, removal moves out before shrinking."""
import re
from . import core, lib
from .core import sym, sym_nstr
from .lib import dom, pdom, no_path, atomics, sites_of, fnkey, const_arg, check_before_effects, agg_sites

EXPLANATION = (
    "Static rules: DELEGATES-SAME over every pure forwarder in iceoryx2-bb-container and iceoryx2-bb-lock-free (a body whose only "
    "non-trivial call is on a projection of self, with its own parameters in order, result returned): reported iff the callee's name "
    "differs from the forwarder's name (after the code base's `_impl` / `__internal_` conventions) AND a same-named operation exists "
    "on the callee's type or trait - 'a same-named operation existed and a different one was called'. DOM check < write: the "
    "capacity / bounds refusal of Vector::{push, insert, extend_from_slice, resize_with}, Queue::push, SlotMap::{insert, insert_at}, "
    "FlatMap::insert, String::{push, insert_bytes, push_bytes} is never reached after a raw write / set_len ('fails ... and changes "
    "nothing'). Drop coverage: Vector::{clear, truncate} drop each removed element (assume_init_drop inside the loop) before "
    "set_len; pop/remove move the value out (read/replace) and never call assume_init_drop (no double drop); every storage flavour "
    "with a Drop impl reaches clear()/element drop. Equality with the reference containers over all operation sequences is "
    "differential execution and is not decided.")
NOT_DECIDED = "equality with Vec/VecDeque/BTreeMap/String for every operation sequence (differential execution)"

TRIV = re.compile(r'Deref>::deref$|DerefMut>::deref_mut$|::as_string$|::get_mut_string$|::as_ref$|::as_mut$|::borrow$|::borrow_mut$|::as_slice$|::as_mut_slice$|::as_bytes$|::verify_init$|::deref$|::deref_mut$|UnsafeCell.*::get$|::assume_init_ref$|::assume_init_mut$|::as_ptr$|::as_mut_ptr$')


def norm(x):
    return re.sub(r'^__internal_', '', re.sub(r'_impl$', '', x))


def delegates_same(F, R):
    ids = set(core.strip_generics(f.id) for f in F.fn_list)
    trait_items = {tid: set(x[0] for x in t['items']) for tid, t in F.traits.items()}
    n = 0
    for f in F.fn_list:
        if f.crate not in ('iceoryx2_bb_container', 'iceoryx2_bb_lock_free') or f.kind == 'closure':
            continue
        calls = [s for s in f.sites if s.is_call and s.callee and not s.macro and not TRIV.search(s.callee)]
        if len(calls) != 1 or not calls[0].args:
            continue
        c = calls[0]
        pr = f.prov_operand(c.args[0])
        hops = 0
        while pr.root[0] == 'call' and TRIV.search(pr.root[1].callee or '') and pr.root[1].args and hops < 3:
            pr = f.prov_operand(pr.root[1].args[0])
            hops += 1
        if not pr.render().startswith('self'):
            continue
        if c.dest != [0]:
            p = f.prov_place([0])
            if not (p.root[0] == 'call' and p.root[1].key() == c.key() and not [x for x in p.path if x != '*']):
                continue
        args = [f.chain(a) for a in c.args[1:]]
        params = [f.local_name(i) or 'arg%d' % i for i in range(2, f.nargs + 1)]
        if args != params:
            continue
        n += 1
        m, m2 = norm(f.name), norm(c.callee.rsplit('::', 1)[-1])
        if m == m2:
            continue
        cal = core.strip_generics(c.callee)
        pre = cal.rsplit('::', 1)[0]
        exists = (pre + '::' + m) in ids or (pre + '::' + m + '_impl') in ids
        tr = None
        mo = re.match(r'^<.* as (.*)>$', pre)
        if mo:
            tr = mo.group(1)
        else:
            o = core.strip_generics(c.callee_orig or '').rsplit('::', 1)[0]
            if o in trait_items:
                tr = o
        if tr and m in trait_items.get(tr, ()):
            exists = True
        if exists:
            R.ob('DELEGATES-SAME', 'DELEGATES-SAME::%s' % fnkey(f), False, '`%s` forwards to `%s` although `%s` exists on the same receiver (%s): a same-named operation existed and a different one was called' % (f.name, c.callee.rsplit('::', 1)[-1], m, core.short(pre)), c.where, f)
    R.ob('DELEGATES-SAME', 'DELEGATES-SAME::summary', True, '%d pure forwarders examined in bb-container / bb-lock-free' % n, '')
    R.floor('pure forwarders', n, 150)


def refusal_before_write(F, R):
    V = 'iceoryx2_bb_container::vector::Vector::'
    table = [
        (V + 'push', r'VectorModificationError$', 'InsertWouldExceedCapacity', r'::push_unchecked$|::set_len$'),
        (V + 'insert', r'VectorModificationError$', 'InsertWouldExceedCapacity', r'::set_len$|core::intrinsics::copy$|ptr::copy$|MaybeUninit::<.*>::write$'),
        (V + 'insert', r'VectorModificationError$', 'OutOfBounds', r'::set_len$|core::intrinsics::copy$|ptr::copy$|MaybeUninit::<.*>::write$'),
        (V + 'extend_from_slice', r'VectorModificationError$', 'InsertWouldExceedCapacity', r'::set_len$|MaybeUninit::<.*>::write$'),
        (V + 'resize_with', r'VectorModificationError$', 'InsertWouldExceedCapacity', r'::set_len$|::truncate$|MaybeUninit::<.*>::write$'),
    ]
    n = 0
    for fid, adt, var, eff in table:
        f = F.fn_opt(fid)
        if f is None:
            R.missing(fid)
            continue
        errs = agg_sites(f, adt, var)
        effects = f.calls(eff)
        rc = check_before_effects(R, f, errs, effects, '%s-refusal<write' % var, 'an operation exceeding the capacity fails and changes nothing')
        n += 1
    # other containers: enumerate by (type, method, error variant)
    others = [
        (r'^iceoryx2_bb_container::queue::MetaQueue::<.*>::push_impl$', None, r'::unchecked_push$|::set_len$|MaybeUninit::<.*>::write$|mut_ptr::<impl \*mut T>::write$'),
        (r'^iceoryx2_bb_container::string::String::insert_bytes$', r'StringModificationError$', r'::set_len$|::insert_bytes_unchecked$|core::intrinsics::copy'),
    ]
    for pat, adt, eff in others:
        fs = F.find_fns(pat)
        if len(fs) != 1:
            R.missing('%s (%d)' % (pat, len(fs)))
            continue
        f = fs[0]
        effects = f.calls(eff)
        if adt:
            errs = [s for s in agg_sites(f, adt)]
        else:
            # bool-returning push: the `false` exit
            errs = [s for s in f.sites if s.i != 'T' and s.node[0] == 'a' and s.node[1] == [0] and s.node[2][0] == 'use' and s.node[2][1][0] == 'k' and s.node[2][1][3] == 0]
        if not errs:
            R.ob('DOM', 'DOM::%s::refusal<write' % fnkey(f), False, 'anchor-missing: refusal exit', f.file, f)
            continue
        for e in errs[:3]:
            for w in effects:
                pth = f.exists_path(w, [e], [])
                R.ob('DOM', 'DOM::%s::refusal<write' % fnkey(f), pth is None, 'the refusal (L%s) is never reached after %s' % (e.line, lib.desc(w)), w.where, f)
        R.ob('FLOOR', 'floor::%s::write sites' % fnkey(f), len(effects) >= 1, '%d write/commit sites' % len(effects), f.file, f)
        n += 1
    R.floor('capacity-checked mutators', n, 7)
    # push_with_overflow: the popped oldest value is the return value
    pw = F.find_fns(r'^iceoryx2_bb_container::queue::MetaQueue::<.*>::push_with_overflow_impl$')
    if len(pw) == 1:
        f = pw[0]
        pops = f.calls(r'::pop_impl$|::pop$')
        push = f.calls(r'::unchecked_push$|::push_impl$')
        ok = False
        conds = []
        if pops and push:
            conds = [sym_nstr(sym(f, f.blocks[b]['t'][1])) for (b, tgt) in lib.guard_switches(f, pops[0])]
            full = [(b, tgt) for (b, tgt) in lib.guard_switches(f, pops[0]) if ('len' in sym_nstr(sym(f, f.blocks[b]['t'][1])) and 'capacity' in sym_nstr(sym(f, f.blocks[b]['t'][1]))) or re.search(r'::is_full\(|\bis_full\(', sym_nstr(sym(f, f.blocks[b]['t'][1])))]
            if full:
                b, tgt = full[0]
                # on the `full` arm every path to the push passes the pop
                ok = f.exists_path(core.Site(f, tgt, -1, ['arm']), push, pops) is None and f.exists_path(push[0], pops, []) is None
        R.ob('DOM', 'DOM::%s::full=>pop-oldest<push' % fnkey(f), ok, 'when len == capacity the oldest element is popped before the slot is overwritten (pop guarded by %s)' % conds, pops[0].where if pops else f.file, f)
        alts = [sym_nstr(x) for x in core.phi_alternatives(f, core.sym_place(f, [0]))]
        R.ob('FLOW', 'FLOW::%s::evicted-value-returned' % fnkey(f), any('pop_impl' in x for x in alts) and len(alts) == 2, 'returns %s' % ' | '.join(x[:60] for x in alts), f.file + ':%s' % f.line, f)
    else:
        R.missing('MetaQueue::push_with_overflow_impl (%d)' % len(pw))


def drop_coverage(F, R):
    V = 'iceoryx2_bb_container::vector::Vector::'
    for nm in ('clear', 'truncate'):
        f = F.fn(V + nm)
        drops = f.calls(r'MaybeUninit::<.*>::assume_init_drop$')
        setl = f.calls(r'::set_len$')
        key = 'DROP::%s::' % fnkey(f)
        R.ob('DROP', key + 'elements-dropped', len(drops) == 1, '%s drops each removed element (assume_init_drop sites: %d)' % (nm, len(drops)), drops[0].where if drops else f.file, f)
        # the drop sits in a loop (reachable from itself) and set_len comes after the loop (not reachable back to the drop)
        if drops and setl:
            in_loop = f.exists_path(drops[0], drops, []) is not None
            after = f.exists_path(setl[0], drops, []) is None
            R.ob('DROP', key + 'drop-loop-before-set_len', in_loop and after, 'assume_init_drop is inside the element loop, set_len after it', setl[0].where, f)
    for nm in ('pop', 'remove'):
        f = F.fn(V + nm)
        drops = f.calls(r'assume_init_drop$')
        moves = f.calls(r'core::mem::replace$|core::ptr::read$|ptr::const_ptr::<impl \*const T>::read$|MaybeUninit::<.*>::assume_init_read$')
        setl = f.calls(r'::set_len$')
        R.ob('DROP', 'DROP::%s::moves-out-without-drop' % fnkey(f), not drops and len(moves) >= 1, '%s moves the value out (%d read/replace) and never drops it in place (%d assume_init_drop)' % (nm, len(moves), len(drops)), moves[0].where if moves else f.file, f)
        dom(R, f, moves, setl, 'move-out<set_len', 'the element is taken before the length shrinks')
    # Drop impls of the storage flavours reach clear()/element drop
    flavours = [
        ('iceoryx2_bb_container::vector::static_vec::StaticVec', r'::clear$'),
        ('iceoryx2_bb_container::vector::polymorphic_vec::PolymorphicVec', r'::clear$'),
        ('iceoryx2_bb_container::vector::relocatable_vec::RelocatableVec', r'::clear$'),
        ('iceoryx2_bb_container::queue::MetaQueue', r'::clear_impl$|::clear$|::pop_impl$'),
        ('iceoryx2_bb_container::vec::MetaVec', r'::clear_impl$|::clear$|::pop_impl$'),
    ]
    n = 0
    for ty, callee in flavours:
        ds = F.find_fns(r'^<' + re.escape(ty) + r'<.*> as core::ops::drop::Drop>::drop$')
        key = 'DROP::Drop(%s)::reaches-element-drop' % ty
        if not ds:
            R.ob('DROP', key, False, 'anchor-missing: no Drop impl for %s (elements would leak / never be dropped)' % ty, ty)
            continue
        for d in ds:
            n += 1
            cs = d.calls(callee)
            ok = bool(cs)
            conds = []
            if cs:
                conds = [sym_nstr(sym(d, d.blocks[b]['t'][1])) for (b, tgt) in lib.guard_switches(d, cs[0])]
                # the only permitted guard is the is-initialized test (an uninitialised container holds nothing)
                ok = all('is_initialized' in c for c in conds)
            R.ob('DROP', key, ok, 'Drop of %s calls %s (guards: %s; only an is_initialized guard is permitted)' % (core.short(ty), callee, conds), cs[0].where if cs else d.file, d)
    R.floor('container Drop impls', n, 5)
    # RelocatableOption / SlotMap / FlatMap hold their elements in the vectors/queues above (type-level): their fields are those containers
    for aid, inner in (('iceoryx2_bb_container::slotmap::MetaSlotMap', 'MetaVec'), ('iceoryx2_bb_container::flatmap::MetaFlatMap', 'MetaSlotMap')):
        a = F.adt(aid)
        holds = [x['name'] for x in a['variants'][0]['fields'] if inner in x['ty_s']]
        R.ob('DROP', 'DROP::%s::elements-owned-by-%s' % (aid, inner), bool(holds), '%s stores its elements in %s fields %s whose Drop drops them' % (core.short(aid), inner, holds), '%s:%s' % (a['file'], a['line']))


def ring_index(F, R):
    """Queue: every raw slot access of the ring buffer goes through the ring index `(..) % capacity` (clear/drop included: after a pop
    the oldest element is not in slot 0)."""
    n = 0
    for f in F.find_fns(r'^iceoryx2_bb_container::queue::MetaQueue'):
        for c in f.calls(r'ptr::(mut_ptr|const_ptr)::<impl \*(mut|const) T>::add$'):
            if 'data_ptr' not in f.chain(c.args[0]):
                continue
            n += 1
            t = sym_nstr(sym(f, c.args[1]))
            ok = re.search(r'% self\.capacity\)?$', t) is not None
            if not ok:
                # the index may be computed by a private helper of the queue (extract-function refactoring): look at what the helper returns
                pr = f.prov_operand(c.args[1])
                if pr.root[0] == 'call' and not pr.path and (pr.root[1].callee or '').startswith('iceoryx2_bb_container::queue::'):
                    g = F.fn_opt(pr.root[1].callee)
                    if g is not None:
                        tg = sym_nstr(core.sym_place(g, [0]))
                        ok = re.search(r'% self\.capacity\)?$', tg) is not None
                        t = '%s = %s' % (t, tg)
            R.ob('SYM-EQ', 'SYM-EQ::%s::slot-index-is-ring-index' % fnkey(f), ok, 'slot address data_ptr.add(%s); required (<position>) %% self.capacity' % t[:120], c.where, f)
    R.floor('raw ring-buffer slot accesses in MetaQueue', n, 5)


def _field_writes(f, field):
    """Assignments whose destination place ends in `.field` -> list of (site, place)."""
    out = []
    for s_ in f.sites:
        if s_.i != 'T' and s_.node[0] == 'a' and len(s_.node[1]) > 1 and s_.node[1][-1] == '.' + field:
            out.append((s_, s_.node[1]))
    return out


def _reads_field(f, field):
    return any(('.' + field) in lib._flat(s_.node) for s_ in f.sites if s_.i != 'T' and s_.node[0] == 'a' and s_.node[1][-1:] != ['.' + field]) or \
        any(('.' + field) in lib._flat(f.blocks[b]['t']) for b in range(len(f.blocks)))


def free_list(F, R):
    """SlotMap free list (doubly linked through idx_to_data_free_list[i].{previous,next}, head idx_to_data_free_list_head): each of the three
    list operations keeps both link directions and the head consistent."""
    H = 'idx_to_data_free_list_head'
    fs = [f for f in F.find_fns(r'^iceoryx2_bb_container::slotmap::MetaSlotMap::<.*>::\w+$') if f.kind != 'closure']
    seen = 0
    for f in fs:
        hw = _field_writes(f, H)
        pw = _field_writes(f, 'previous')
        nw = _field_writes(f, 'next')
        if not (hw or pw or nw):
            continue
        # whole-entry writes `list[idx] = FreeListEntry{..}` count as writes of both links
        whole = [s_ for s_ in f.sites if s_.i != 'T' and s_.node[0] == 'a' and s_.node[2][0] == 'agg' and 'FreeListEntry' in str(s_.node[2][1])]
        if f.name.startswith('init') or f.name.startswith('new') or f.name == 'clear_impl' or len(whole) and not hw and not pw and not nw:
            continue
        seen += 1
        reads_head = _reads_field(f, H)
        param_is_new_head = any((lambda pr: pr.root[0] == 'arg' and pr.root[1] >= 2 and not pr.path)(f.prov_operand(s_.node[2][1])) for s_, _ in hw if s_.node[2][0] == 'use')
        key = '%s::%s::' % ('PAIR', fnkey(f))
        if param_is_new_head:
            # push-front: the old head's back link must be set
            R.ob('PAIR', key + 'push-front-sets-back-link-of-old-head', bool(pw), 'the function makes its argument the new head (%d head write(s)) and sets the old head\'s `.previous` (%d write(s)): insert_at() later unlinks through `previous`' % (len(hw), len(pw)), hw[0][0].where, f)
        elif hw:
            # pop-front: new head's back link reset
            R.ob('PAIR', key + 'pop-front-resets-back-link-of-new-head', bool(pw), 'the function advances the head (%d head write(s)) and resets the new head\'s `.previous` (%d write(s))' % (len(hw), len(pw)), hw[0][0].where, f)
        if pw and nw and not param_is_new_head and any(f.prov_operand(['c', [int(pl[-2][2:-1])]]).root[0] == 'arg' for _, pl in nw if isinstance(pl[-2], str) and pl[-2].startswith('[_')):
            # unlink of an arbitrary node given as argument: the head must be considered
            R.ob('PAIR', key + 'unlink-considers-the-head', bool(hw), 'the function unlinks the entry of its argument (writes %d `.next`, %d `.previous`) and %s the list head: unlinking the head itself must advance it, otherwise insert() hands out the occupied key' % (len(nw), len(pw), 'updates' if hw else 'never updates'), nw[0][0].where, f)
    R.floor('free-list operations of MetaSlotMap', seen, 3)


def key_bounds(F, R):
    """SlotMap: a key is refused with `key >= capacity` (keys index arrays of length capacity): a `>` comparison lets key == capacity through to the index."""
    n = 0
    for f in F.find_fns(r'^iceoryx2_bb_container::slotmap::MetaSlotMap::<.*>::\w+$'):
        for b in range(len(f.blocks)):
            t = f.blocks[b]['t']
            if t[0] != 'switch':
                continue
            c = sym_nstr(sym(f, t[1]))
            m = re.match(r'^\((.*) (>=|>|<|<=) (.*)\)$', c)
            if not m:
                continue
            lhs, op, rhs = m.groups()
            if not re.search(r'capacity_impl\(|idx_to_data\)?\.len|len\(.*idx_to_data', rhs + lhs) or 'len_impl' in c:
                continue
            keyside = lhs if re.search(r'capacity_impl\(|idx_to_data', rhs) else rhs
            if not re.search(r'\bkey\b|\bidx\b|\.0$', keyside):
                continue
            n += 1
            strict_ok = (op == '>=' and keyside == lhs) or (op == '<' and keyside == lhs) or (op == '<=' and keyside == rhs) or (op == '>' and keyside == rhs)
            R.ob('CMP', 'CMP::%s::key-bound-is-inclusive' % fnkey(f), strict_ok, 'bounds test `%s`: a key equal to the capacity must be refused (it indexes arrays of that length)' % c[:100], f.term_site(b).where, f)
    R.floor('key-vs-capacity tests in MetaSlotMap', n, 3)


def resize_range(F, R):
    """Vector::resize_with fills exactly the slots [len, new_len): `take(new_len)` then `skip(len)` (or skip(len).take(new_len - len)).
    skip(len).take(new_len) writes up to `len` surplus elements beyond the recorded length: they are never dropped."""
    fs = F.find_fns(r'^iceoryx2_bb_container::vector::Vector::resize_with$')
    if len(fs) != 1:
        R.missing('Vector::resize_with')
        return
    f = fs[0]
    it = [c for c in f.calls(r'IntoIterator>::into_iter$')]
    # recognised compositions of skip/take over the slot iterator: good = [len, new_len) ; bad = [len, len + new_len) or [new_len, ..).
    # any other way of writing the loop (index range, helper ..) is not judged by this rule (no alarm on an unrecognised idiom)
    verdict, t = 'not a skip/take composition (not judged)', ''
    ok = True
    for c in it:
        t = sym_nstr(sym(f, c.args[0]))
        if re.match(r'^skip\(take\((.*), new_len\), len\(self\)\)$', t) or re.match(r'^take\(skip\((.*), len\(self\)\), \(new_len - len\(self\)\)\)$', t):
            verdict = 'slots len..new_len'
        elif re.match(r'^take\(skip\((.*), len\(self\)\), new_len\)$', t):
            ok, verdict = False, 'slots len..len+new_len: up to `len` surplus elements are written beyond the recorded length and never dropped'
        elif re.match(r'^skip\(take\((.*), len\(self\)\), new_len\)$', t):
            ok, verdict = False, 'empty / wrong range'
    R.ob('SYM-EQ', 'SYM-EQ::%s::fills-exactly-len..new_len' % fnkey(f), ok, 'the fill loop iterates over `%s`: %s' % (t[:120], verdict), it[0].where if it else '%s:%s' % (f.file, f.line), f)


def flatmap_error_precedence(F, R):
    """FlatMap::insert: a key that is already stored is reported as KeyAlreadyExists even when the map is full (the reference model's answer;
    a duplicate insert does not need space): the duplicate-key scan precedes every IsFull refusal."""
    for f in F.find_fns(r'^iceoryx2_bb_container::flatmap::MetaFlatMap::<.*>::insert_impl$'):
        dup = agg_sites(f, r'FlatMapError$', 'KeyAlreadyExists')
        full = agg_sites(f, r'FlatMapError$', 'IsFull')
        scan = f.calls(r'Iterator::(skip_while|any|find|find_map|position|all|filter)$|::get_ref_impl$|::contains_impl$|::get_impl$|::get_mut_ref_impl$')
        ok = bool(dup) and bool(full) and bool(scan) and all(any(f.dominates(sc, e) for sc in scan) for e in full)
        R.ob('DOM', 'DOM::%s::duplicate-key-scan<IsFull' % fnkey(f), ok, 'every IsFull refusal (%d) is dominated by the duplicate-key scan (%d site(s)): full + existing key = KeyAlreadyExists' % (len(full), len(scan)), full[0].where if full else '%s:%s' % (f.file, f.line), f)


def search_direction(F, R):
    """Strings: a search result that is compared with the LAST possible position (`len - n`) must come from a search from the back
    (`rfind`), one compared with the FIRST position (0) from a search from the front (`find`).  The first occurrence equals the last
    possible position only when the needle occurs once: `"aa".strip_suffix("a")` with `find` answers `false`."""
    n = 0
    for f in F.find_fns(r'^iceoryx2_bb_container::(string|semantic_string)::'):
        if f.kind == 'closure':
            continue
        inst = []
        for s_ in f.sites:
            if s_.i != 'T' and s_.node[0] == 'a' and s_.node[2][0] == 'bin' and s_.node[2][1] in ('Eq', 'Ne'):
                a, b = sym_nstr(sym(f, s_.node[2][2])), sym_nstr(sym(f, s_.node[2][3]))
                for x, y in ((a, b), (b, a)):
                    m = re.match(r'^(?:[\w:<>]*::)?(r?find)\(.*\)as:Some\.0$', x)
                    if m:
                        end = 'last' if (re.search(r'len\(', y) and ' - ' in y) else ('first' if y == '0' else None)
                        if end:
                            inst.append((m.group(1), end, s_))
            if s_.i == 'T' and s_.node[0] == 'switch':
                x = sym_nstr(sym(f, s_.node[1]))
                m = re.match(r'^(?:[\w:<>]*::)?(r?find)\(.*\)as:Some\.0$', x)
                if m and any(v == 0 for v, t in s_.node[2]):
                    inst.append((m.group(1), 'first', s_))
        for fn_, end, s_ in inst:
            n += 1
            R.ob('FLOW', 'FLOW::%s::search-direction-matches-compared-end' % fnkey(f), (fn_ == 'rfind') == (end == 'last'), 'result of %s() is compared with the %s possible position; required %s' % (fn_, end, 'rfind' if end == 'last' else 'find'), s_.where, f)
    R.floor('search results compared with an end position', n, 2)


def string_index_in_bounds(F, R):
    """Strings (shared default methods of the `String` trait, used by every flavour): every slice index into the CAPACITY-sized data array
    whose index is a plain expression over len / parameters (not a loop counter) is reached only under a guard that proves it in bounds:
    `index < capacity()` or `index < len()`.  `len <= capacity` is the container invariant, so `len >= idx` proves nothing for idx == len on a
    full string: the reference container refuses (remove) or does nothing (empty range), the string panics."""
    n = 0
    for f in F.find_fns(r'^iceoryx2_bb_container::string::String::\w+$'):
        k = 0
        for s_ in f.sites:
            if not (s_.i == 'T' and s_.node[0] == 'assert' and 'BoundsCheck' in str(s_.node[5])):
                continue
            sp = lib._split_top(sym_nstr(sym(f, s_.node[1])))
            if not sp or sp[1] != '<' or 'next(' in sp[0] or re.fullmatch(r'\d+', sp[0]):
                continue    # loop counters / constant index: not judged here
            idx = sp[0]
            k += 1
            n += 1
            conds = [lib._split_top(c) for c in lib.path_conds(f, s_, F)]
            bound = r'^(capacity|len)\(self\)$'
            ok = any(c and ((c[0] == idx and c[1] == '<' and re.match(bound, c[2])) or (c[2] == idx and c[1] == '>' and re.match(bound, c[0]))) for c in conds)
            R.ob('CMP', 'CMP::%s::index-proven-in-bounds#%d' % (fnkey(f), k), ok, 'data[%s] is reached under %s; required a guard `%s < capacity()` or `%s < len()`' % (idx[:60], ['(%s %s %s)' % c for c in conds if c][:3], idx[:40], idx[:40]), s_.where, f)
    R.floor('plain slice indices in String default methods', n, 4)


def check(F, R, tier):
    delegates_same(F, R)
    search_direction(F, R)
    string_index_in_bounds(F, R)
    refusal_before_write(F, R)
    drop_coverage(F, R)
    ring_index(F, R)
    free_list(F, R)
    key_bounds(F, R)
    resize_range(F, R)
    flatmap_error_precedence(F, R)


LEVEL_TEXT = ("Decides structural clauses over all storage flavours: wrappers forward to the same-named operation, refusals are never reached after "
              "a write (capacity errors change nothing), element drop coverage without double drop, every raw queue slot access uses the ring index, "
              "the slot map's free-list operations keep both link directions and the head consistent. Necessary conditions; agreement with the reference "
              "containers over operation sequences is not decided. Strings: plain slice indices are guarded by `< capacity/len`, suffix/prefix searches run from the matching end.")
LEVEL_NOTE = "Trusted: rustc MIR; the forwarder detection idiom and the `_impl`/`__internal_` naming conventions. Small structural part of the property."
TECHNIQUE = "static analysis: forwarder cross-check over the resolved call graph, no-refusal-after-write path rules, drop-coverage rules"
