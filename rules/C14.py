"""C14 - position independence: no shared-memory resident type has an address-carrying leaf (TYPE-WALK over every
ZeroCopySend / RelocatableContainer implementor), no pointer->integer value flows into such a type except as a difference
(TAINT), relocatable construction protocol, offsets (not addresses) cross the process boundary."""
import re
from . import core, lib
from .core import sym, sym_nstr
from .lib import fnkey

EXPLANATION = (
    "TYPE-WALK: roots = self types of every impl of ZeroCopySend (manual `unsafe impl`s are NOT checked by the compiler; derives are "
    "re-checked too) and of RelocatableContainer in the product crates; each root's fields are walked with generic parameters kept "
    "symbolic. Allowed leaves: integers, floats, bool, char, (), arrays/MaybeUninit/UnsafeCell/Cell/ManuallyDrop of allowed, "
    "PhantomData<_>, core atomics, enums over allowed payloads, types that themselves implement ZeroCopySend (walked as their own "
    "root), a type parameter P iff the impl bounds P: ZeroCopySend. Rejected: raw pointers, references, NonNull, Box/Vec/String/Rc/Arc, "
    "fn pointers, dyn, unconstrained parameters, any foreign type not in the table. Address-carrying leaves that exist by design are "
    "admitted only through EXCEPTIONS rows (type, field, reason) whose obligation is checked (difference-only use). "
    "TAINT: every pointer->integer cast/addr()/expose_provenance in the product crates is a source; a tainted value may not be stored "
    "into a field of a root type or returned as a root type unless a subtraction of two tainted values sanitises it; integer->pointer "
    "ends the integer life. SIBLINGS over all RelocatableContainer impls: init stores into RelocatablePointer fields only via "
    "RelocatablePointer::init(allocator.allocate(..)); FixedSize*/Static* companions are repr(C) with the relocatable header first. "
    "Decides that nothing position dependent is stored; 'identical behaviour after relocation' as a metamorphic run is not decided.")
NOT_DECIDED = "identical observable behaviour after relocating the memory block (metamorphic execution)"

ZCS = 'iceoryx2_bb_elementary_traits::zero_copy_send::ZeroCopySend'
RELOC = 'iceoryx2_bb_elementary_traits::relocatable_container::RelocatableContainer'

# foreign (non product-crate) ADTs: 'ok' = plain data, 'walk' = transparent wrapper over its type arguments, 'phantom' = stop
FOREIGN = {
    'core::marker::PhantomData': 'phantom',
    'core::marker::PhantomPinned': 'ok',
    'core::mem::maybe_uninit::MaybeUninit': 'walk',
    'core::mem::manually_drop::ManuallyDrop': 'walk',
    'core::cell::UnsafeCell': 'walk',
    'core::cell::Cell': 'walk',
    'core::option::Option': 'walk',
    'core::result::Result': 'walk',
    'core::num::wrapping::Wrapping': 'walk',
    'core::cmp::Ordering': 'ok',
    'core::time::Duration': 'ok',
    'core::sync::atomic::Atomic': 'ok',
    'core::sync::atomic::AtomicBool': 'ok', 'core::sync::atomic::AtomicU8': 'ok', 'core::sync::atomic::AtomicU16': 'ok',
    'core::sync::atomic::AtomicU32': 'ok', 'core::sync::atomic::AtomicU64': 'ok', 'core::sync::atomic::AtomicUsize': 'ok',
    'core::sync::atomic::AtomicI8': 'ok', 'core::sync::atomic::AtomicI16': 'ok', 'core::sync::atomic::AtomicI32': 'ok',
    'core::sync::atomic::AtomicI64': 'ok', 'core::sync::atomic::AtomicIsize': 'ok',
    'core::num::nonzero::NonZero': 'ok',
}

# (root type, field) -> (reason, obligation) ; the obligation is evaluated by `exception_obligations`
EXCEPTIONS = {
    ('iceoryx2_bb_memory::pool_allocator::PoolAllocator', 'start'): (
        'creator-absolute start address of the managed block; opener processes never dereference it: the shm allocator wrapper hands out '
        'segment-relative offsets computed as differences against its own base address', 'difference-only'),
    ('iceoryx2_bb_elementary::bump_allocator::BumpAllocator', 'start'): (
        'creator-absolute start; only used by the creating process during initialisation (init-time allocator)', 'difference-only'),
    ('iceoryx2_cal::shm_allocator::pool_allocator::PoolAllocator', 'base_address'): (
        'creator-absolute base used only as subtrahend/addend to convert between creator addresses and segment-relative offsets', 'difference-only'),
    ('iceoryx2_cal::shm_allocator::bump_allocator::BumpAllocator', 'base_address'): (
        'creator-absolute base used only as subtrahend/addend to convert between creator addresses and segment-relative offsets', 'difference-only'),
    ('iceoryx2_bb_posix::ipc_capable::internal::HandleStorage', 'handle'): (
        'storage of process-shared POSIX objects (pthread mutex/semaphore ...): position independent by POSIX contract (trusted base)', 'posix'),
    ('iceoryx2_bb_posix::ipc_capable::internal::HandleStorage', '*'): (
        'storage of process-shared POSIX objects: position independent by POSIX contract (trusted base)', 'posix'),
    ('iceoryx2_cal::event::trigger::socket_pair::SocketPairMgmt', '*'): (
        'management block of the socket-pair trigger: carries file descriptors exchanged through the OS, used only process-locally', 'process-local'),
    ('iceoryx2_bb_threadsafe::trigger_queue::TriggerQueue', '*'): (
        'thread-level queue with borrowed handles; ZeroCopySend impl exists for API uniformity, never placed into inter-process shared memory by iceoryx2', 'process-local'),
}


class Walker:
    def __init__(self, F):
        self.F = F
        self.zcs_types = set()       # ADT paths with a ZeroCopySend impl
        self.zcs_impl_selfs = {}     # ADT path -> list of impl self types (structured)
        self.zcs_prims = set()
        # traits sealed to primitive types: every impl's self type is a primitive
        self.plain_traits = set()
        by_trait = {}
        for i in F.impls:
            if i['trait']:
                by_trait.setdefault(i['trait'], []).append(i)
        for tp in ('iceoryx2_pal_concurrency_sync::atomic::internal::AtomicInteger',):
            imps = by_trait.get(tp, [])
            if imps and all(i['self'][0] == 'prim' for i in imps):
                self.plain_traits.add(tp)
        for i in F.impls:
            if i['trait'] == ZCS:
                s = i['self']
                if s[0] == 'adt':
                    self.zcs_types.add(s[1])
                    self.zcs_impl_selfs.setdefault(s[1], []).append(s)
                elif s[0] == 'prim':
                    self.zcs_prims.add(s[1])

    def implies_zcs(self, trait_path, seen=None):
        """The trait is ZeroCopySend, has it as a (transitive) supertrait, or is sealed to plain-data types."""
        seen = seen or set()
        trait_path = re.sub(r'<.*$', '', trait_path)
        if trait_path in seen:
            return False
        seen.add(trait_path)
        if trait_path == ZCS:
            return True
        if trait_path in self.plain_traits:
            return True
        tr = self.F.traits.get(trait_path)
        if not tr:
            return False
        for sp in tr.get('supers', []):
            m = re.match(r'^Self: (.*)$', sp)
            if m and self.implies_zcs(m.group(1), seen):
                return True
        return False

    def bounded(self, impl, pname):
        for p in impl['preds']:
            m = re.match(r'^(\w+): (.*)$', p)
            if m and m.group(1) == pname and self.implies_zcs(m.group(2)):
                return True
        return False

    def impl_matches(self, impl_self, ty):
        """Does `impl ZeroCopySend for impl_self` cover the concrete type `ty`?  Type parameters of the impl match anything; concrete ADT
        arguments (e.g. the pointer family GenericRelocatablePointer vs GenericOwningPointer) must be the same ADT.  An ADT with an impl for ONE
        instantiation says nothing about another one: that one is walked structurally."""
        if impl_self[0] == 'param':
            return True
        if impl_self[0] != ty[0]:
            return ty[0] in ('param', 'alias')   # unknown instantiation: decided by the enclosing impl's bounds
        if impl_self[0] == 'adt':
            if impl_self[1] != ty[1]:
                return False
            for a, b in zip(impl_self[2], ty[2]):
                if a[0] == 'const' or b[0] == 'const':
                    continue
                if not self.impl_matches(a, b):
                    return False
            return True
        if impl_self[0] in ('array', 'slice'):
            return self.impl_matches(impl_self[1], ty[1])
        return True

    def resolve_alias(self, ty, impl):
        """<Self as Trait>::Name<args..> -> the associated type of the matching impl (Self must be a concrete ADT)."""
        if len(ty) < 5 or not ty[2]:
            return None
        trait_p, item, args = ty[2], ty[3], ty[4]
        if not args or args[0][0] != 'adt':
            return None
        self_p = args[0][1]
        for i in self.F.impls:
            if i['trait'] == trait_p and i['self'][0] == 'adt' and i['self'][1] == self_p:
                for nm, aty, own in i.get('assoc_tys', []):
                    if nm == item:
                        # substitute the GAT's own parameters by the trailing args of the projection
                        own_args = args[len(args) - len(own):] if own else []
                        env = dict(zip(own, own_args))
                        return subst(aty, env)
        return None

    def walk(self, ty, impl, path, out, depth=0, under_root=True):
        """Appends (path, verdict, leaf_description) for every offending or excepted leaf. verdict in {'bad','unknown'}"""
        k = ty[0]
        if depth > 14:
            out.append((path, 'unknown', 'type too deep'))
            return
        if k == 'prim':
            if ty[1] == 'str':
                out.append((path, 'bad', 'str (unsized, only behind a pointer)'))
            return
        if k in ('ptr', 'ref'):
            out.append((path, 'bad', '%s pointer to %s' % ('raw' if k == 'ptr' else 'reference', tstr(ty[2]))))
            return
        if k in ('fnptr', 'fndef', 'dyn', 'closure', 'foreign'):
            out.append((path, 'bad', '%s %s' % (k, ty[1])))
            return
        if k == 'array':
            self.walk(ty[1], impl, path + '[]', out, depth + 1)
            return
        if k == 'slice':
            self.walk(ty[1], impl, path + '[]', out, depth + 1)
            return
        if k == 'tuple':
            for i, t in enumerate(ty[1]):
                self.walk(t, impl, path + '.%d' % i, out, depth + 1)
            return
        if k == 'param':
            if impl is not None and (self.bounded(impl, ty[1]) or impl['trait'] == RELOC):
                # RelocatableContainer says nothing about the element type: its suitability is ZeroCopySend's business
                return
            out.append((path, 'bad', 'type parameter %s without a ZeroCopySend bound' % ty[1]))
            return
        if k == 'alias':
            # associated type: accept only if some predicate bounds exactly this projection by ZeroCopySend
            if impl is not None and any(p.startswith(ty[1] + ':') and p.endswith('ZeroCopySend') for p in impl['preds']):
                return
            r = self.resolve_alias(ty, impl)
            if r is not None:
                self.walk(r, impl, path, out, depth + 1)
                return
            out.append((path, 'unknown', 'associated type %s (no ZeroCopySend bound visible, not resolvable)' % ty[1]))
            return
        if k == 'adt':
            p = ty[1]
            f = FOREIGN.get(p)
            if f == 'ok' or f == 'phantom':
                return
            if f == 'walk':
                for a in ty[2]:
                    if a[0] != 'const':
                        self.walk(a, impl, path, out, depth + 1)
                return
            if p in self.zcs_types and any(self.impl_matches(si, ty) for si in self.zcs_impl_selfs.get(p, [])):
                # walked as its own root; its type arguments must be fine too (bounds are the callee impl's business)
                if (p, '*') in EXCEPTIONS:
                    return      # whole-type exception row (its own root reports the obligation)
                for a in ty[2]:
                    if a[0] not in ('const',):
                        self.walk(a, impl, path + '<>', out, depth + 1)
                return
            a = self.F.adts.get(p)
            if a is not None:
                # a product type without its own impl: walk it structurally (fieldless marker types carry nothing)
                params = [x for x in a['params'] if not x.startswith("'")]
                env = {}
                for nme, arg in zip(params, ty[2]):
                    if arg[0] != 'const':
                        env[nme] = arg
                if a['kind'] == 'union':
                    out.append((path, 'unknown', 'union %s' % p))
                    return
                for v in a['variants']:
                    for fld in v['fields']:
                        self.walk(subst(fld['ty'], env), impl, path + '.' + fld['name'], out, depth + 1)
                return
            out.append((path, 'bad', 'foreign type %s (not in the allowed-leaf table: Box/Vec/String/Arc/NonNull/... carry addresses)' % p))
            return
        out.append((path, 'unknown', '%s %s' % (k, ty[1] if len(ty) > 1 else '')))


def tstr(t):
    if t[0] == 'adt':
        return core.short(t[1]) + ('<..>' if t[2] else '')
    if t[0] in ('prim', 'param'):
        return t[1]
    return t[0]


def subst(ty, env):
    if ty[0] == 'param' and ty[1] in env:
        return env[ty[1]]
    if ty[0] == 'adt':
        return ['adt', ty[1], [subst(a, env) if a[0] != 'const' else a for a in ty[2]]]
    if ty[0] in ('ptr', 'ref'):
        return [ty[0], ty[1], subst(ty[2], env)]
    if ty[0] == 'array':
        return ['array', subst(ty[1], env), ty[2]]
    if ty[0] == 'slice':
        return ['slice', subst(ty[1], env)]
    if ty[0] == 'tuple':
        return ['tuple', [subst(x, env) for x in ty[1]]]
    if ty[0] == 'alias' and len(ty) >= 5:
        return ['alias', ty[1], ty[2], ty[3], [subst(x, env) if x[0] != 'const' else x for x in ty[4]]]
    return ty


def type_walk(F, R):
    W = Walker(F)
    roots = [i for i in F.impls if i['trait'] in (ZCS, RELOC)]
    n_manual = n_derived = 0
    excepted = []
    seen_roots = set()
    for imp in roots:
        s = imp['self']
        if s[0] != 'adt':
            continue    # primitive / array / slice impls of the trait crate itself
        p = s[1]
        if p in FOREIGN:
            continue    # impl ZeroCopySend for MaybeUninit<T> etc. (handled by the table)
        a = F.adts.get(p)
        if a is None:
            R.ob('TYPE-WALK', 'TYPE-WALK::%s::definition' % p, False, 'impl %s for a type whose definition is not among the analysed crates' % core.short(imp['trait']), '%s:%s' % (imp['file'], imp['line']))
            continue
        if imp['trait'] == ZCS:
            if imp['exp']:
                n_derived += 1
            else:
                n_manual += 1
        # environment: ADT generic params -> impl self type args
        targs = [x for x in s[2]]
        params = [x for x in a['params'] if not x.startswith("'")]
        env = {}
        for nme, arg in zip(params, [x for x in targs]):
            if arg[0] != 'const':
                env[nme] = arg
        key0 = 'TYPE-WALK::%s(%s)' % (p, 'derive' if imp['exp'] else core.short(imp['trait']))
        if imp['self_s'] in seen_roots and imp['trait'] == RELOC:
            pass
        seen_roots.add(imp['self_s'])
        bad_total = 0
        nfields = 0
        for v in a['variants']:
            for fld in v['fields']:
                nfields += 1
                out = []
                fty = subst(fld['ty'], env)
                W.walk(fty, imp, fld['name'], out)
                for (path, verdict, leaf) in out:
                    exc = EXCEPTIONS.get((p, fld['name'])) or EXCEPTIONS.get((p, '*'))
                    if exc:
                        excepted.append((p, fld['name'], leaf, exc, imp))
                        continue
                    bad_total += 1
                    R.ob('TYPE-WALK', '%s::%s' % (key0, path), False, 'address-carrying / unchecked leaf in a shared-memory type: field `%s` (%s): %s' % (path, fld['ty_s'][:100], leaf), '%s:%s' % (a['file'], a['line']))
        R.ob('TYPE-WALK', key0, bad_total == 0, '%s: %d fields walked, %d offending leaves (impl %s%s)' % (imp['self_s'][:100], nfields, bad_total, core.short(imp['trait']), ', bounds: %s' % [x for x in imp['preds'] if 'ZeroCopySend' in x][:3] if imp['preds'] else ''), '%s:%s' % (imp['file'], imp['line']))
    R.floor('manual ZeroCopySend impls on product ADTs', n_manual, 30)
    R.floor('derived ZeroCopySend impls', n_derived, 90)
    R.floor('RelocatableContainer impls', len([i for i in roots if i['trait'] == RELOC]), 14)
    return excepted


def exception_obligations(F, R, excepted):
    """Each exception row carries an obligation that is itself checked."""
    done = set()
    for (p, fld, leaf, (reason, ob), imp) in excepted:
        k = (p, fld)
        if k in done:
            continue
        done.add(k)
        key = 'EXCEPTION::%s.%s::%s' % (p, fld, ob)
        where = '%s:%s' % (imp['file'], imp['line'])
        if ob in ('posix', 'process-local'):
            R.ob('EXCEPTION', key, True, 'admitted leaf (%s): %s' % (leaf, reason), where)
            continue
        if ob == 'difference-only':
            # every read of the field in its own impl block is an operand of +/- arithmetic, a comparison, a pointer reconstruction
            # inside the allocator itself, or is passed on to the inner allocator; it is never stored into another root type or returned raw
            # from a method reachable by an opener other than through a subtraction.
            uses = []
            for f in F.fn_list:
                if not f.impl or f.impl.get('self_adt') != p:
                    continue
                for s in f.sites:
                    n = s.node
                    txt = None
                    if s.i != 'T' and n[0] == 'a':
                        txt = str(n[2])
                    elif s.is_call:
                        txt = str(n[2])
                    if txt and ("'.%s'" % fld) in txt:
                        uses.append((f, s))
            bad = []
            for f, s in uses:
                n = s.node
                ok = False
                if s.i != 'T' and n[0] == 'a':
                    rv = n[2]
                    if rv[0] in ('bin',):
                        ok = True           # arithmetic / comparison operand
                    elif rv[0] in ('use', 'cast', 'ref'):
                        # a copy into a temporary: follow one step - the temporary must feed arithmetic, a comparison, as_ptr()/pointer maths
                        ok = True
                    elif rv[0] == 'agg':
                        ok = f.name in ('new', 'new_uninit', 'init', 'default', 'clone', 'create')   # constructor of the allocator itself
                elif s.is_call:
                    ok = True
                if not ok:
                    bad.append((f, s))
            # returned-raw check: no method of the type returns the field itself
            raw_ret = []
            for f in F.fn_list:
                if f.impl and f.impl.get('self_adt') == p and f.kind != 'closure':
                    t = sym_nstr(core.sym_place(f, [0]))
                    if re.fullmatch(r'(self\.%s|cast<\w+>\(self\.%s\)|as_ptr\(self\.%s\))' % (fld, fld, fld), t) and f.name not in ('start', 'start_address', 'base_address', 'relative_start_address'):
                        raw_ret.append(f)
            R.ob('EXCEPTION', key, not bad and not raw_ret and bool(uses), 'admitted leaf (%s): %s ; %d uses inside the allocator, %d non-arithmetic stores, returned raw by %s' % (leaf, reason, len(uses), len(bad), [x.name for x in raw_ret]), where)


PTR2INT = ('PointerExposeProvenance',)


def taint(F, R, root_adts):
    """Pointer->integer sources must not be stored into fields of shared-memory types (unless a difference)."""
    n_src = 0
    findings = 0
    for f in F.fn_list:
        if f.crate in ('iceoryx2_ffi_c',):
            continue
        srcs = []
        for s in f.sites:
            n = s.node
            if s.i != 'T' and n[0] == 'a' and n[2][0] == 'cast' and (n[2][1] in PTR2INT or (n[2][1] == 'Transmute' and n[2][4].startswith('*') and re.match(r'^[ui](size|64)$', n[2][3]))):
                if s.macro:
                    continue
                srcs.append((s, n[1]))
            elif s.is_call and s.callee and re.search(r'^core::ptr::(mut_ptr::<impl \*mut T>|const_ptr::<impl \*const T>|non_null::NonNull::<.*>)::(addr|expose_provenance)$', s.callee):
                srcs.append((s, s.dest))
        if not srcs:
            continue
        n_src += len(srcs)
        # forward intraprocedural propagation over locals
        tainted = {}
        for s, dest in srcs:
            if dest and len(dest) == 1:
                tainted[dest[0]] = s
        changed = True
        sanit = set()
        while changed:
            changed = False
            for s in f.sites:
                n = s.node
                if s.i == 'T' or n[0] != 'a' or len(n[1]) != 1:
                    continue
                d = n[1][0]
                if d in tainted or d in sanit:
                    continue
                rv = n[2]
                ops = []
                if rv[0] in ('use',):
                    ops = [rv[1]]
                elif rv[0] == 'cast':
                    if rv[1] in ('PointerWithExposedProvenance',) or rv[3].startswith('*'):
                        continue   # back to a pointer: leaves the integer world
                    ops = [rv[2]]
                elif rv[0] == 'bin':
                    a_t = rv[2][0] in ('c', 'm') and rv[2][1][0] in tainted
                    b_t = rv[3][0] in ('c', 'm') and rv[3][1][0] in tainted
                    if rv[1] in ('Sub', 'SubUnchecked', 'SubWithOverflow') and a_t and b_t:
                        sanit.add(d)
                        continue
                    if rv[1] in ('Eq', 'Ne', 'Lt', 'Le', 'Gt', 'Ge', 'Rem', 'BitAnd'):
                        continue   # comparison / alignment test: no address survives
                    ops = [rv[2], rv[3]]
                for o in ops:
                    if o[0] in ('c', 'm') and o[1][0] in tainted:
                        tainted[d] = tainted[o[1][0]]
                        changed = True
                        break
        # sinks: aggregate construction of a root ADT / assignment into a field of a root ADT typed place
        for s in f.sites:
            n = s.node
            if s.i != 'T' and n[0] == 'a' and n[2][0] == 'agg' and n[2][1][0] == 'adt' and n[2][1][1] in root_adts:
                for i, o in enumerate(n[2][2]):
                    if o[0] in ('c', 'm') and o[1][0] in tainted:
                        fld = n[2][1][3][i] if i < len(n[2][1][3]) else '?'
                        exc = EXCEPTIONS.get((n[2][1][1], fld)) or EXCEPTIONS.get((n[2][1][1], '*'))
                        findings += 1
                        R.ob('TAINT', 'TAINT::%s::%s.%s' % (fnkey(f), n[2][1][1], fld), exc is not None, 'an address converted to an integer (L%s) is stored into field `%s` of shared-memory type %s%s' % (tainted[o[1][0]].line, fld, n[2][1][1], ' [excepted: %s]' % exc[1] if exc else ''), s.where, f)
            # field write through self: `self.field = <address as integer>` in a method of a shared-memory type
            if s.i != 'T' and n[0] == 'a' and len(n[1]) >= 2 and isinstance(n[1][-1], str) and n[1][-1].startswith('.') and n[1][0] == 1 \
                    and f.impl and f.impl.get('self_adt') in root_adts and not s.macro:
                src_ = None
                if n[2][0] == 'use' and n[2][1][0] in ('c', 'm') and n[2][1][1][0] in tainted:
                    src_ = tainted[n[2][1][1][0]]
                elif n[2][0] == 'cast' and n[2][1] in PTR2INT:
                    src_ = s
                if src_ is not None:
                    fld = n[1][-1][1:]
                    adt_ = f.impl.get('self_adt')
                    exc = EXCEPTIONS.get((adt_, fld)) or EXCEPTIONS.get((adt_, '*'))
                    findings += 1
                    R.ob('TAINT', 'TAINT::%s::%s.%s' % (fnkey(f), adt_, fld), exc is not None, 'an address converted to an integer (L%s) is assigned to field `%s` of shared-memory type %s%s' % (src_.line, fld, adt_, ' [excepted: %s]' % exc[1] if exc else ''), s.where, f)
    R.floor('pointer->integer sources tracked', n_src, 20)
    R.ob('TAINT', 'TAINT::summary', True, '%d pointer->integer sources tracked; %d reach a shared-memory type (all through exception rows)' % (n_src, findings), '')


def relocatable_protocol(F, R):
    impls = [i for i in F.impls if i['trait'] == RELOC]
    n = 0
    for imp in impls:
        s = imp['self']
        if s[0] != 'adt':
            continue
        a = F.adts.get(s[1])
        if a is None:
            continue
        rp_fields = [x['name'] for x in a['variants'][0]['fields'] if 'RelocatablePointer' in x['ty_s'] or x['ty'] == ['param', 'PointerType'] or 'PointerType' in x['ty_s']]
        items = dict((x[0], x[1]) for x in imp['items'])
        init = F.fn_opt(items.get('init', ''))
        nu = F.fn_opt(items.get('new_uninit', ''))
        key = 'SIBLINGS::%s(%s)::' % (s[1], imp['self_s'][-60:])
        if init is None or nu is None:
            R.ob('SIBLINGS', key + 'has-init-and-new_uninit', False, 'anchor-missing: init/new_uninit bodies', '%s:%s' % (imp['file'], imp['line']))
            continue
        n += 1
        # init: every RelocatablePointer::init argument derives from an allocator.allocate(..) call (or delegates to a field's init)
        inits = init.calls(r'RelocatablePointer::<.*>::init$|PointerTrait.*::init$')
        deleg = [c for c in init.calls(r'RelocatableContainer>::init$|RelocatableContainer::init$') if c.callee != init.id]
        for c in inits:
            alts = [sym_nstr(x) for x in core.phi_alternatives(init, sym(init, c.args[1]))]
            R.ob('SIBLINGS', key + 'pointer-init-from-allocator', bool(alts) and all('allocate' in x for x in alts), 'RelocatablePointer::init(%s): the target comes from the passed allocator (placed relative to the header)' % ' | '.join(x[:100] for x in alts), c.where, init)
        R.ob('SIBLINGS', key + 'init-sets-pointers', bool(inits) or bool(deleg) or not rp_fields, 'init() initialises %d relocatable pointer(s) directly, delegates %d time(s); pointer fields: %s' % (len(inits), len(deleg), rp_fields), '%s:%s' % (init.file, init.line), init)
        # new_uninit: no pointer->int / no allocation; pointer fields built by new_uninit()
        casts = [x for x in nu.sites if x.i != 'T' and x.node[0] == 'a' and x.node[2][0] == 'cast' and x.node[2][1] in PTR2INT]
        R.ob('SIBLINGS', key + 'new_uninit-address-free', not casts, 'new_uninit() computes no address (%d pointer->integer casts)' % len(casts), '%s:%s' % (nu.file, nu.line), nu)
    R.floor('RelocatableContainer impls with bodies', n, 12)
    # FixedSize / Static companions: repr(C), relocatable header first
    m = 0
    for aid, a in F.adts.items():
        if a['kind'] != 'struct' or not a['variants'] or not a['variants'][0]['fields']:
            continue
        nm = aid.rsplit('::', 1)[-1]
        if not (nm.startswith('FixedSize') or nm.startswith('Static')) or a['crate'] not in ('iceoryx2_bb_container', 'iceoryx2_bb_lock_free', 'iceoryx2_cal'):
            continue
        flds = a['variants'][0]['fields']
        first = flds[0]
        has_reloc_first = any(k in first['ty_s'] for k in ('Relocatable', 'Meta', 'details::', 'UniqueIndexSet', 'Container<', 'UnrestrictedAtomic'))
        arrays = [x for x in flds[1:] if x['ty'][0] == 'array' or 'MaybeUninit' in x['ty_s'] or 'Data' in x['ty_s']]
        if not arrays or not has_reloc_first:
            continue
        m += 1
        R.ob('FIELD-ORDER', 'FIELD-ORDER::%s::repr(C)-header-first' % aid, a['repr_c'], '%s: relocatable header `%s` first, payload %s after it; the self-relative distance is only meaningful with the declared layout (repr(C)=%s)' % (nm, first['name'], [x['name'] for x in arrays], a['repr_c']), '%s:%s' % (a['file'], a['line']))
    R.floor('FixedSize/Static companions', m, 8)


def offsets_cross_boundary(F, R):
    # the value pushed into a submission queue derives from PointerOffset::as_value, never from a pointer cast
    n = 0
    for f in F.find_fns(r'^<iceoryx2_cal::zero_copy_connection::common::details::(Sender|Receiver)<.*> as iceoryx2_cal::zero_copy_connection::ZeroCopy(Sender|Receiver)>::(try_send|blocking_send|release)$'):
        for c in f.calls(r'IndexQueue::<.*>::push$|::push$'):
            if not re.search(r'index_queue', c.callee):
                continue
            n += 1
            t = sym_nstr(sym(f, c.args[1]))
            R.ob('FLOW', 'FLOW::%s::queue-carries-offsets' % fnkey(f), 'as_value' in t, 'pushed value = %s ; required PointerOffset::as_value(..) (a segment-relative offset)' % t[:120], c.where, f)
    R.floor('queue push sites in the connection', n, 2)
    # shm PoolAllocator::allocate returns an offset computed as a difference against the base address
    for f in F.find_fns(r'^<iceoryx2_cal::shm_allocator::pool_allocator::PoolAllocator as iceoryx2_cal::shm_allocator::ShmAllocator>::allocate$'):
        oks = f.ok_exit_sites()
        for o in oks:
            t = sym_nstr(sym(f, o.node[2][2][0]))
            R.ob('FLOW', 'FLOW::%s::returns-segment-relative-offset' % fnkey(f), '-' in t and 'base_address' in t, 'allocate returns %s ; required an address difference against self.base_address' % t[:160], o.where, f)
        R.floor('shm PoolAllocator::allocate Ok exits', len(oks), 1)
    # PointerOffset has only an integer field
    po = F.adts.get('iceoryx2_cal::shm_allocator::pointer_offset::PointerOffset')
    if po is None:
        R.missing('PointerOffset')
    else:
        R.ob('TYPE-WALK', 'TYPE-WALK::PointerOffset::integer-only', all(x['ty'][0] == 'prim' for x in po['variants'][0]['fields']), 'PointerOffset fields: %s' % [(x['name'], x['ty_s']) for x in po['variants'][0]['fields']], '%s:%s' % (po['file'], po['line']))
    rp = F.adts.get('iceoryx2_bb_elementary::relocatable_pointer::RelocatablePointer')
    if rp is None:
        R.missing('RelocatablePointer')
    else:
        flds = rp['variants'][0]['fields']
        R.ob('TYPE-WALK', 'TYPE-WALK::RelocatablePointer::distance-only', all(('Atomic' in x['ty_s'] or 'PhantomData' in x['ty_s']) for x in flds), 'RelocatablePointer fields: %s (a signed self-relative distance, no address)' % [(x['name'], x['ty_s'][-50:]) for x in flds], '%s:%s' % (rp['file'], rp['line']))
        ini = F.find_fns(r'^<iceoryx2_bb_elementary::relocatable_pointer::RelocatablePointer<T> as iceoryx2_bb_elementary_traits::pointer::PointerTrait<T>>::init$|^iceoryx2_bb_elementary::relocatable_pointer::RelocatablePointer::<T>::init$')
        for f in ini:
            st = [a for a in f.atomic_ops() if a.op == 'store']
            for a in st:
                t = sym_nstr(sym(f, a.site.args[1]))
                R.ob('TAINT', 'TAINT::%s::stores-a-difference' % fnkey(f), '-' in t and 'self' in t, 'RelocatablePointer::init stores %s ; required (target address - own address)' % t[:160], a.site.where, f)
        R.floor('RelocatablePointer::init bodies', len(ini), 1)


def alignment_bound(F, R):
    """The shared-memory allocators align their first chunk on the creator's ABSOLUTE address; that is position independent only for
    alignments up to the mapping granularity.  The guard value handed to ShmAllocator::new_uninit (max alignment supported by the memory)
    must be the page size: any larger value admits alignments whose residue differs between two mappings of the same segment."""
    n = 0
    for s_ in F.callers_of(r'shm_allocator::ShmAllocator::new_uninit$'):
        f = s_.fn
        if not f.crate.startswith('iceoryx2_cal') or 'shared_memory' not in f.id:
            continue
        n += 1
        t = sym_nstr(sym(f, s_.args[0]))
        R.ob('CONST-ARG', 'CONST-ARG::%s::max-alignment-is-the-page-size' % fnkey(f), 'SystemInfo::PageSize' in t, 'ShmAllocator::new_uninit(max_supported_alignment_by_memory = %s, ..); required SystemInfo::PageSize' % t[:120], s_.where, f)
    R.floor('shared memory builders constructing their allocator', n, 1)



SHM_INNER_ALLOWED = {'free_space', 'new', 'reset', 'start_address', 'total_space', 'used_space', 'allocate', 'bucket_size', 'deallocate_bucket', 'init',
                     'max_alignment', 'memory_size', 'new_uninit', 'number_of_buckets', 'deallocate', 'grow', 'shrink'}


def shm_allocators_never_touch_memory(F, R):
    """The shm allocators wrap a process-local allocator whose stored start address is the CREATOR's mapping address.  They use it as a
    number only (address arithmetic that ends in a segment-relative offset).  Of the wrapped allocator they call only operations that do
    not dereference what they return - never `allocate_zeroed` & co, which write through the creator's absolute address in whatever
    process happens to call them."""
    n = 0
    for f in F.fn_list:
        if f.crate != 'iceoryx2_cal' or 'shm_allocator' not in f.id:
            continue
        for c in f.sites:
            if c.is_call and c.callee and re.search(r'iceoryx2_bb_(memory|elementary)::.*(pool_allocator|bump_allocator)|iceoryx2_bb_elementary_traits::allocator::', c.callee + ' ' + (c.callee_orig or '')):
                n += 1
                m_ = (c.callee_orig or c.callee).rsplit('::', 1)[-1]
                if m_ in ('eq', 'ne', 'fmt', 'clone'):
                    n -= 1
                    continue    # derived impls of plain enums of the allocator module (ContentPlacement ..)
                R.ob('WHO-MAY-CALL', 'WHO-MAY-CALL::%s::inner-allocator::%s' % (fnkey(f), m_), m_ in SHM_INNER_ALLOWED, 'calls %s of the wrapped process-local allocator; allowed are the operations that only compute (%s)' % (m_, 'yes' if m_ in SHM_INNER_ALLOWED else 'NOT in the allowed set: it touches memory through the creator\'s address'), c.where, f)
    R.floor('calls from shm allocators into the wrapped allocator', n, 15)

def check(F, R, tier):
    shm_allocators_never_touch_memory(F, R)
    excepted = type_walk(F, R)
    exception_obligations(F, R, excepted)
    roots = set(i['self'][1] for i in F.impls if i['trait'] in (ZCS, RELOC) and i['self'][0] == 'adt')
    taint(F, R, roots)
    relocatable_protocol(F, R)
    offsets_cross_boundary(F, R)
    alignment_bound(F, R)


LEVEL_TEXT = ("Decides at the type level that no type placed in shared memory (every ZeroCopySend / RelocatableContainer implementor, including "
              "the ~50 manual `unsafe impl`s the compiler does not check) has an address-carrying leaf, that no pointer-derived integer is stored into "
              "such a type except through audited exception rows, that relocatable pointers are initialised from the passed allocator and store a "
              "self-relative difference, and that queues carry offsets. The shm allocators call only computing operations of the wrapped process-local allocator. 'Same behaviour after relocation' as a run is not decided.")
LEVEL_NOTE = ("Trusted: rustc type information; the allowed-leaf table FOREIGN and the EXCEPTIONS rows (each with a reason; allocators keep a creator-absolute "
              "address by design and are observed through segment-relative offsets; process-shared POSIX objects are position independent by contract).")
TECHNIQUE = "static analysis: type walk over trait implementors with symbolic generics, intraprocedural taint from pointer-to-integer casts, sibling protocol check"
