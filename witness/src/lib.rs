//! Compile-fail witnesses for the type-level remainder of C02, C03, C17, C20 (DESIGN.md E3).
//! Every `compile_fail,E0xxx` snippet has a compiling twin that differs only in the offending line; a witness whose
//! path is merely wrong would also "fail to compile", the twin rules that out.  Run with `cargo +nightly test --doc`
//! (the stable toolchain ignores the error code).

/// C02: sending consumes the loaned sample - a second use must not type-check.
/// ```compile_fail,E0382
/// use iceoryx2::prelude::*;
/// fn f() -> Result<(), Box<dyn core::error::Error>> {
///     let node = NodeBuilder::new().create::<ipc::Service>()?;
///     let service = node.service_builder(&"w/c02/a".try_into()?).publish_subscribe::<u64>().open_or_create()?;
///     let publisher = service.publisher_builder().create()?;
///     let sample = publisher.loan_uninit()?.write_payload(1);
///     sample.send()?;
///     let _again = sample.payload(); // use after send
///     Ok(())
/// }
/// ```
/// twin:
/// ```no_run
/// use iceoryx2::prelude::*;
/// fn f() -> Result<(), Box<dyn core::error::Error>> {
///     let node = NodeBuilder::new().create::<ipc::Service>()?;
///     let service = node.service_builder(&"w/c02/a".try_into()?).publish_subscribe::<u64>().open_or_create()?;
///     let publisher = service.publisher_builder().create()?;
///     let sample = publisher.loan_uninit()?.write_payload(1);
///     sample.send()?;
///     Ok(())
/// }
/// ```
pub fn c02_send_consumes_the_sample() {}

/// C02: a received sample gives no mutable access to the payload.
/// ```compile_fail,E0599
/// use iceoryx2::prelude::*;
/// fn f() -> Result<(), Box<dyn core::error::Error>> {
///     let node = NodeBuilder::new().create::<ipc::Service>()?;
///     let service = node.service_builder(&"w/c02/b".try_into()?).publish_subscribe::<u64>().open_or_create()?;
///     let subscriber = service.subscriber_builder().create()?;
///     if let Some(mut sample) = subscriber.receive()? {
///         *sample.payload_mut() = 5; // no such method on a received sample
///     }
///     Ok(())
/// }
/// ```
/// twin:
/// ```no_run
/// use iceoryx2::prelude::*;
/// fn f() -> Result<(), Box<dyn core::error::Error>> {
///     let node = NodeBuilder::new().create::<ipc::Service>()?;
///     let service = node.service_builder(&"w/c02/b".try_into()?).publish_subscribe::<u64>().open_or_create()?;
///     let subscriber = service.subscriber_builder().create()?;
///     if let Some(sample) = subscriber.receive()? {
///         let _v: u64 = *sample.payload();
///     }
///     Ok(())
/// }
/// ```
pub fn c02_received_sample_is_immutable() {}

/// C02: a loaned sample cannot be cloned (one owner of the loan).
/// ```compile_fail,E0599
/// use iceoryx2::prelude::*;
/// fn f() -> Result<(), Box<dyn core::error::Error>> {
///     let node = NodeBuilder::new().create::<ipc::Service>()?;
///     let service = node.service_builder(&"w/c02/c".try_into()?).publish_subscribe::<u64>().open_or_create()?;
///     let publisher = service.publisher_builder().create()?;
///     let sample = publisher.loan_uninit()?.write_payload(1);
///     let copy = sample.clone(); // SampleMut is not Clone
///     copy.send()?;
///     sample.send()?;
///     Ok(())
/// }
/// ```
/// twin:
/// ```no_run
/// use iceoryx2::prelude::*;
/// fn f() -> Result<(), Box<dyn core::error::Error>> {
///     let node = NodeBuilder::new().create::<ipc::Service>()?;
///     let service = node.service_builder(&"w/c02/c".try_into()?).publish_subscribe::<u64>().open_or_create()?;
///     let publisher = service.publisher_builder().create()?;
///     let sample = publisher.loan_uninit()?.write_payload(1);
///     sample.send()?;
///     Ok(())
/// }
/// ```
pub fn c02_loaned_sample_is_not_clone() {}

/// C03: the producer handle of an SPSC index queue needs exclusive access for push - two simultaneous pushers are rejected.
/// ```compile_fail,E0499
/// use iceoryx2_bb_lock_free::spsc::index_queue::*;
/// fn f() {
///     let queue = FixedSizeIndexQueue::<4>::new();
///     let mut producer = queue.acquire_producer().unwrap();
///     let a = &mut producer;
///     let b = &mut producer; // second exclusive borrow
///     a.push(1);
///     b.push(2);
/// }
/// ```
/// twin:
/// ```no_run
/// use iceoryx2_bb_lock_free::spsc::index_queue::*;
/// fn f() {
///     let queue = FixedSizeIndexQueue::<4>::new();
///     let mut producer = queue.acquire_producer().unwrap();
///     let a = &mut producer;
///     a.push(1);
///     a.push(2);
/// }
/// ```
pub fn c03_single_producer_handle() {}

/// C03: the producer handle cannot be duplicated.
/// ```compile_fail,E0599
/// use iceoryx2_bb_lock_free::spsc::index_queue::*;
/// fn f() {
///     let queue = FixedSizeIndexQueue::<4>::new();
///     let producer = queue.acquire_producer().unwrap();
///     let _second = producer.clone(); // Producer is not Clone
/// }
/// ```
/// twin:
/// ```no_run
/// use iceoryx2_bb_lock_free::spsc::index_queue::*;
/// fn f() {
///     let queue = FixedSizeIndexQueue::<4>::new();
///     let _producer = queue.acquire_producer().unwrap();
/// }
/// ```
pub fn c03_producer_is_not_clone() {}

/// C17 / C20: a wait-set guard cannot outlive its wait set.
/// ```compile_fail,E0597
/// use iceoryx2::prelude::*;
/// fn f() -> Result<(), Box<dyn core::error::Error>> {
///     let node = NodeBuilder::new().create::<ipc::Service>()?;
///     let service = node.service_builder(&"w/c20/a".try_into()?).event().open_or_create()?;
///     let listener = service.listener_builder().create()?;
///     let guard;
///     {
///         let waitset = WaitSetBuilder::new().create::<ipc::Service>()?;
///         guard = waitset.attach_notification(&listener)?; // borrowed value does not live long enough
///     }
///     drop(guard);
///     Ok(())
/// }
/// ```
/// twin:
/// ```no_run
/// use iceoryx2::prelude::*;
/// fn f() -> Result<(), Box<dyn core::error::Error>> {
///     let node = NodeBuilder::new().create::<ipc::Service>()?;
///     let service = node.service_builder(&"w/c20/a".try_into()?).event().open_or_create()?;
///     let listener = service.listener_builder().create()?;
///     let waitset = WaitSetBuilder::new().create::<ipc::Service>()?;
///     let guard;
///     {
///         guard = waitset.attach_notification(&listener)?;
///     }
///     drop(guard);
///     Ok(())
/// }
/// ```
pub fn c20_guard_cannot_outlive_waitset() {}

/// C20: an attachment cannot be dropped (moved) while its guard lives.
/// ```compile_fail,E0505
/// use iceoryx2::prelude::*;
/// fn f() -> Result<(), Box<dyn core::error::Error>> {
///     let node = NodeBuilder::new().create::<ipc::Service>()?;
///     let service = node.service_builder(&"w/c20/b".try_into()?).event().open_or_create()?;
///     let listener = service.listener_builder().create()?;
///     let waitset = WaitSetBuilder::new().create::<ipc::Service>()?;
///     let guard = waitset.attach_notification(&listener)?;
///     drop(listener); // move out while borrowed by the guard
///     drop(guard);
///     Ok(())
/// }
/// ```
/// twin:
/// ```no_run
/// use iceoryx2::prelude::*;
/// fn f() -> Result<(), Box<dyn core::error::Error>> {
///     let node = NodeBuilder::new().create::<ipc::Service>()?;
///     let service = node.service_builder(&"w/c20/b".try_into()?).event().open_or_create()?;
///     let listener = service.listener_builder().create()?;
///     let waitset = WaitSetBuilder::new().create::<ipc::Service>()?;
///     let guard = waitset.attach_notification(&listener)?;
///     drop(guard);
///     drop(listener);
///     Ok(())
/// }
/// ```
pub fn c20_attachment_outlives_guard() {}

/// C17: a received sample may outlive the subscriber it came from (it holds counted references to what it needs).
/// ```no_run
/// use iceoryx2::prelude::*;
/// fn f() -> Result<(), Box<dyn core::error::Error>> {
///     let node = NodeBuilder::new().create::<ipc::Service>()?;
///     let service = node.service_builder(&"w/c17/a".try_into()?).publish_subscribe::<u64>().open_or_create()?;
///     let subscriber = service.subscriber_builder().create()?;
///     let sample = subscriber.receive()?;
///     drop(subscriber);
///     drop(service);
///     drop(node);
///     let _v = sample.map(|s| *s.payload());
///     Ok(())
/// }
/// ```
pub fn c17_sample_may_outlive_its_port() {}
