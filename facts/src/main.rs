// iox2-facts: rustc_private driver that dumps MIR/ADT/impl facts of the
// iceoryx2 product crates as JSON (one file per crate, one write per process).
//
// Used as RUSTC_WORKSPACE_WRAPPER:   iox2-facts <path-to-rustc> <rustc args...>
// Environment:
//   IOX2_FACTS_OUT     directory the fact files are written to (required)
//   IOX2_FACTS_CRATES  comma separated crate names (underscored) to analyse
#![feature(rustc_private)]
#![allow(clippy::all)]

extern crate rustc_abi;
extern crate rustc_driver;
extern crate rustc_hir;
extern crate rustc_interface;
extern crate rustc_middle;
extern crate rustc_span;

use rustc_hir::def::DefKind;
use rustc_hir::def_id::{DefId, LOCAL_CRATE};
use rustc_middle::mir::*;
use rustc_middle::ty::print::{with_no_trimmed_paths, with_no_visible_paths, with_resolve_crate_name, PrintTraitRefExt};

macro_rules! full {
    ($e:expr) => {
        with_resolve_crate_name!(with_no_visible_paths!(with_no_trimmed_paths!($e)))
    };
}
use rustc_middle::ty::{self, Instance, Ty, TyCtxt, TypingEnv};
use rustc_span::Span;
use std::fmt::Write as _;

// ---------------------------------------------------------------- JSON ----
enum J {
    Null,
    Bool(bool),
    Int(i128),
    Str(String),
    Arr(Vec<J>),
    Obj(Vec<(&'static str, J)>),
}
fn s<T: Into<String>>(x: T) -> J {
    J::Str(x.into())
}
impl J {
    fn write(&self, out: &mut String) {
        match self {
            J::Null => out.push_str("null"),
            J::Bool(b) => out.push_str(if *b { "true" } else { "false" }),
            J::Int(i) => {
                let _ = write!(out, "{}", i);
            }
            J::Str(st) => {
                out.push('"');
                for c in st.chars() {
                    match c {
                        '"' => out.push_str("\\\""),
                        '\\' => out.push_str("\\\\"),
                        '\n' => out.push_str("\\n"),
                        '\r' => out.push_str("\\r"),
                        '\t' => out.push_str("\\t"),
                        c if (c as u32) < 0x20 => {
                            let _ = write!(out, "\\u{:04x}", c as u32);
                        }
                        c => out.push(c),
                    }
                }
                out.push('"');
            }
            J::Arr(v) => {
                out.push('[');
                for (i, x) in v.iter().enumerate() {
                    if i > 0 {
                        out.push(',');
                    }
                    x.write(out);
                }
                out.push(']');
            }
            J::Obj(v) => {
                out.push('{');
                for (i, (k, x)) in v.iter().enumerate() {
                    if i > 0 {
                        out.push(',');
                    }
                    let _ = write!(out, "\"{}\":", k);
                    x.write(out);
                }
                out.push('}');
            }
        }
    }
}

// ------------------------------------------------------------- helpers ----
struct Cx<'tcx> {
    tcx: TyCtxt<'tcx>,
}

impl<'tcx> Cx<'tcx> {
    fn path(&self, d: DefId) -> String {
        full!(self.tcx.def_path_str(d))
    }
    fn ty_s(&self, t: Ty<'tcx>) -> String {
        full!(format!("{}", t))
    }
    fn loc(&self, sp: Span) -> (String, usize, bool, String) {
        let exp = sp.from_expansion();
        let mut mac = String::new();
        if exp {
            for (i, e) in sp.macro_backtrace().enumerate() {
                if i > 0 {
                    mac.push('>');
                }
                let _ = write!(mac, "{}", e.kind.descr());
                if i >= 4 {
                    break;
                }
            }
        }
        let cs = sp.source_callsite();
        let sm = self.tcx.sess.source_map();
        let lo = sm.lookup_char_pos(cs.lo());
        let fname = format!("{}", lo.file.name.prefer_local_unconditionally());
        (fname, lo.line, exp, mac)
    }
    fn line(&self, sp: Span) -> J {
        let (_, l, exp, mac) = self.loc(sp);
        if exp {
            J::Arr(vec![J::Int(l as i128), s(mac)])
        } else {
            J::Int(l as i128)
        }
    }

    // structured type tree
    fn ty_j(&self, t: Ty<'tcx>, depth: usize) -> J {
        if depth > 12 {
            return J::Arr(vec![s("deep"), s(self.ty_s(t))]);
        }
        match t.kind() {
            ty::Bool | ty::Char | ty::Int(_) | ty::Uint(_) | ty::Float(_) | ty::Str | ty::Never => {
                J::Arr(vec![s("prim"), s(self.ty_s(t))])
            }
            ty::Adt(def, args) => {
                let mut a = vec![];
                for g in args.iter() {
                    if let Some(t2) = g.as_type() {
                        a.push(self.ty_j(t2, depth + 1));
                    } else if let Some(c) = g.as_const() {
                        a.push(J::Arr(vec![s("const"), s(full!(format!("{}", c)))]));
                    }
                }
                J::Arr(vec![s("adt"), s(self.path(def.did())), J::Arr(a)])
            }
            ty::RawPtr(inner, m) => J::Arr(vec![
                s("ptr"),
                s(if m.is_mut() { "mut" } else { "const" }),
                self.ty_j(*inner, depth + 1),
            ]),
            ty::Ref(_, inner, m) => J::Arr(vec![
                s("ref"),
                s(if m.is_mut() { "mut" } else { "const" }),
                self.ty_j(*inner, depth + 1),
            ]),
            ty::Array(inner, len) => J::Arr(vec![
                s("array"),
                self.ty_j(*inner, depth + 1),
                s(full!(format!("{}", len))),
            ]),
            ty::Slice(inner) => J::Arr(vec![s("slice"), self.ty_j(*inner, depth + 1)]),
            ty::Tuple(ts) => J::Arr(vec![
                s("tuple"),
                J::Arr(ts.iter().map(|x| self.ty_j(x, depth + 1)).collect()),
            ]),
            ty::Param(p) => J::Arr(vec![s("param"), s(p.name.to_string())]),
            ty::FnPtr(..) => J::Arr(vec![s("fnptr"), s(self.ty_s(t))]),
            ty::FnDef(d, _) => J::Arr(vec![s("fndef"), s(self.path(*d))]),
            ty::Dynamic(..) => J::Arr(vec![s("dyn"), s(self.ty_s(t))]),
            ty::Closure(d, _) => J::Arr(vec![s("closure"), s(self.path(*d))]),
            ty::Alias(a) => {
                let mut trait_p = J::Null;
                let mut item = J::Null;
                let mut args = vec![];
                if let ty::AliasTyKind::Projection { def_id } = a.kind {
                    trait_p = s(self.path(self.tcx.parent(def_id)));
                    item = s(self.tcx.item_name(def_id).to_string());
                    for g in a.args.iter() {
                        if let Some(t2) = g.as_type() {
                            args.push(self.ty_j(t2, depth + 1));
                        } else if let Some(c) = g.as_const() {
                            args.push(J::Arr(vec![s("const"), s(full!(format!("{}", c)))]));
                        }
                    }
                }
                J::Arr(vec![s("alias"), s(self.ty_s(t)), trait_p, item, J::Arr(args)])
            }
            ty::Foreign(d) => J::Arr(vec![s("foreign"), s(self.path(*d))]),
            _ => J::Arr(vec![s("other"), s(self.ty_s(t))]),
        }
    }
}

struct BodyCx<'a, 'tcx> {
    cx: &'a Cx<'tcx>,
    body: &'a Body<'tcx>,
    env: TypingEnv<'tcx>,
}

impl<'a, 'tcx> BodyCx<'a, 'tcx> {
    fn place(&self, p: &Place<'tcx>) -> J {
        let tcx = self.cx.tcx;
        let mut v = vec![J::Int(p.local.as_usize() as i128)];
        let mut pty = rustc_middle::mir::PlaceTy::from_ty(self.body.local_decls[p.local].ty);
        for elem in p.projection.iter() {
            let e = match elem {
                ProjectionElem::Deref => s("*"),
                ProjectionElem::Field(f, _) => {
                    let mut name = format!(".{}", f.as_usize());
                    if let ty::Adt(def, _) = pty.ty.kind() {
                        let vi = pty.variant_index.unwrap_or(rustc_abi::FIRST_VARIANT);
                        if def.variants().len() > vi.as_usize() {
                            let var = def.variant(vi);
                            if var.fields.len() > f.as_usize() {
                                name = format!(".{}", var.fields[f].name);
                            }
                        }
                    }
                    s(name)
                }
                ProjectionElem::Downcast(_, vi) => {
                    let mut name = format!("as#{}", vi.as_usize());
                    if let ty::Adt(def, _) = pty.ty.kind() {
                        if def.is_enum() && def.variants().len() > vi.as_usize() {
                            name = format!("as:{}", def.variant(vi).name);
                        }
                    }
                    s(name)
                }
                ProjectionElem::Index(l) => s(format!("[_{}]", l.as_usize())),
                ProjectionElem::ConstantIndex { offset, from_end, .. } => {
                    s(format!("[{}{}]", if from_end { "-" } else { "" }, offset))
                }
                ProjectionElem::Subslice { .. } => s("[..]"),
                ProjectionElem::OpaqueCast(_) => s("opaque"),
                ProjectionElem::UnwrapUnsafeBinder(_) => s("unwrap_binder"),
            };
            v.push(e);
            pty = pty.projection_ty(tcx, elem);
        }
        J::Arr(v)
    }

    fn konst(&self, c: &ConstOperand<'tcx>) -> J {
        let tcx = self.cx.tcx;
        let ty = c.const_.ty();
        let disp = full!(format!("{}", c.const_));
        let mut val = J::Null;
        // evaluate integers / bools where possible
        if ty.is_integral() || ty.is_bool() || ty.is_char() {
            if let Some(si) = c.const_.try_eval_scalar_int(tcx, self.env) {
                let size = si.size();
                if ty.is_signed() {
                    val = J::Int(si.to_int(size));
                } else {
                    val = J::Int(si.to_uint(size) as i128);
                }
            }
        } else if let ty::Adt(def, _) = ty.kind() {
            // field-less enum constant -> variant name
            if def.is_enum() && def.variants().iter().all(|v| v.fields.is_empty()) {
                if let Some(si) = c.const_.try_eval_scalar_int(tcx, self.env) {
                    let bits = si.to_bits(si.size());
                    for (vi, d) in def.discriminants(tcx) {
                        if d.val == bits {
                            val = s(def.variant(vi).name.to_string());
                        }
                    }
                }
            }
        }
        // name of an unevaluated named constant
        let mut name = J::Null;
        if let Const::Unevaluated(u, _) = c.const_ {
            name = s(self.cx.path(u.def));
            if let Some(pr) = u.promoted {
                // summarise the promoted body: aggregates and constants it is built from
                let mut parts: Vec<String> = vec![];
                if u.def.is_local() {
                    let bodies = tcx.promoted_mir(u.def);
                    if let Some(pb) = bodies.get(pr) {
                        for bb in pb.basic_blocks.iter() {
                            for st in bb.statements.iter() {
                                if let StatementKind::Assign(b) = &st.kind {
                                    match &b.1 {
                                        Rvalue::Aggregate(k, _) => {
                                            if let AggregateKind::Adt(d, vi, ..) = &**k {
                                                let def = tcx.adt_def(*d);
                                                parts.push(format!("{}::{}", self.cx.path(*d), def.variant(*vi).name));
                                            }
                                        }
                                        Rvalue::Use(Operand::Constant(cc), ..) => {
                                            parts.push(full!(format!("{}", cc.const_)));
                                        }
                                        _ => {}
                                    }
                                }
                            }
                        }
                    }
                }
                name = s(format!("promoted[{}]", parts.join(";")));
            }
        }
        if let ty::FnDef(d, _) = ty.kind() {
            return J::Arr(vec![s("fn"), s(self.cx.path(*d))]);
        }
        J::Arr(vec![s("k"), s(disp), s(self.cx.ty_s(ty)), val, name])
    }

    fn operand(&self, o: &Operand<'tcx>) -> J {
        match o {
            Operand::Copy(p) => J::Arr(vec![s("c"), self.place(p)]),
            Operand::Move(p) => J::Arr(vec![s("m"), self.place(p)]),
            Operand::Constant(c) => self.konst(c),
            #[allow(unreachable_patterns)]
            _ => J::Arr(vec![s("op?")]),
        }
    }

    fn rvalue(&self, r: &Rvalue<'tcx>) -> J {
        match r {
            Rvalue::Use(o, ..) => J::Arr(vec![s("use"), self.operand(o)]),
            Rvalue::Repeat(o, n) => J::Arr(vec![
                s("repeat"),
                self.operand(o),
                s(full!(format!("{}", n))),
            ]),
            Rvalue::Ref(_, bk, p) => J::Arr(vec![
                s("ref"),
                s(match bk {
                    BorrowKind::Mut { .. } => "mut",
                    _ => "shr",
                }),
                self.place(p),
            ]),
            Rvalue::ThreadLocalRef(d) => J::Arr(vec![s("tls"), s(self.cx.path(*d))]),
            Rvalue::RawPtr(k, p) => J::Arr(vec![s("rawptr"), s(format!("{:?}", k)), self.place(p)]),
            Rvalue::Cast(k, o, t) => {
                let from = o.ty(&self.body.local_decls, self.cx.tcx);
                J::Arr(vec![
                    s("cast"),
                    s(format!("{:?}", k)),
                    self.operand(o),
                    s(self.cx.ty_s(*t)),
                    s(self.cx.ty_s(from)),
                ])
            }
            Rvalue::BinaryOp(op, ab) => J::Arr(vec![
                s("bin"),
                s(format!("{:?}", op)),
                self.operand(&ab.0),
                self.operand(&ab.1),
            ]),
            Rvalue::UnaryOp(op, a) => J::Arr(vec![s("un"), s(format!("{:?}", op)), self.operand(a)]),
            Rvalue::Discriminant(p) => {
                let pty = p.ty(&self.body.local_decls, self.cx.tcx).ty;
                J::Arr(vec![s("discr"), self.place(p), s(self.cx.ty_s(pty))])
            }
            Rvalue::Aggregate(kind, ops) => {
                let k = match &**kind {
                    AggregateKind::Array(_) => J::Arr(vec![s("array")]),
                    AggregateKind::Tuple => J::Arr(vec![s("tuple")]),
                    AggregateKind::Adt(d, vi, _, _, active) => {
                        let def = self.cx.tcx.adt_def(*d);
                        let var = def.variant(*vi);
                        let fields: Vec<J> = match active {
                            Some(f) => vec![s(var.fields[*f].name.to_string())],
                            None => var.fields.iter().map(|f| s(f.name.to_string())).collect(),
                        };
                        J::Arr(vec![
                            s("adt"),
                            s(self.cx.path(*d)),
                            s(var.name.to_string()),
                            J::Arr(fields),
                        ])
                    }
                    AggregateKind::Closure(d, _) => J::Arr(vec![s("closure"), s(self.cx.path(*d))]),
                    AggregateKind::Coroutine(d, _) => J::Arr(vec![s("coroutine"), s(self.cx.path(*d))]),
                    AggregateKind::CoroutineClosure(d, _) => {
                        J::Arr(vec![s("coroutine_closure"), s(self.cx.path(*d))])
                    }
                    AggregateKind::RawPtr(..) => J::Arr(vec![s("rawptr")]),
                };
                J::Arr(vec![
                    s("agg"),
                    k,
                    J::Arr(ops.iter().map(|o| self.operand(o)).collect()),
                ])
            }
            Rvalue::CopyForDeref(p) => J::Arr(vec![s("use"), J::Arr(vec![s("c"), self.place(p)])]),
            Rvalue::WrapUnsafeBinder(o, _) => J::Arr(vec![s("use"), self.operand(o)]),
            #[allow(unreachable_patterns)]
            _ => J::Arr(vec![s("rv?"), s(format!("{:?}", r))]),
        }
    }

    fn callee(&self, func: &Operand<'tcx>) -> J {
        let tcx = self.cx.tcx;
        let fty = func.ty(&self.body.local_decls, tcx);
        if let ty::FnDef(def_id, args) = fty.kind() {
            let orig = self.cx.path(*def_id);
            let mut resolved = orig.clone();
            let mut res_kind = "direct";
            let mut res_full = full!(tcx.def_path_str_with_args(*def_id, args));
            let is_trait_item = tcx.trait_of_assoc(*def_id).is_some();
            if is_trait_item {
                res_kind = "trait";
            }
            let dk = tcx.def_kind(*def_id);
            if matches!(dk, DefKind::Fn | DefKind::AssocFn) {
                if let Ok(Some(inst)) = Instance::try_resolve(tcx, self.env, *def_id, args) {
                    let rd = inst.def_id();
                    if rd != *def_id {
                        resolved = self.cx.path(rd);
                        res_full = full!(tcx.def_path_str_with_args(rd, inst.args));
                        res_kind = match inst.def {
                            ty::InstanceKind::Item(_) => "resolved",
                            ty::InstanceKind::Virtual(..) => "virtual",
                            _ => "shim",
                        };
                    } else if is_trait_item {
                        // resolved to the trait's default body
                        if let ty::InstanceKind::Item(_) = inst.def {
                            res_kind = "trait-default";
                        }
                    }
                }
            }
            // self type of the call (first generic arg of a trait method) for diagnostics
            let mut self_ty = J::Null;
            if is_trait_item && args.len() > 0 {
                if let Some(t) = args[0].as_type() {
                    self_ty = s(self.cx.ty_s(t));
                }
            }
            J::Obj(vec![
                ("d", s(resolved)),
                ("o", s(orig)),
                ("k", s(res_kind)),
                ("f", s(res_full)),
                ("s", self_ty),
            ])
        } else {
            // call through a pointer / closure value
            J::Obj(vec![("p", self.operand(func)), ("t", s(self.cx.ty_s(fty)))])
        }
    }

    fn unwind(&self, u: &UnwindAction) -> J {
        match u {
            UnwindAction::Cleanup(bb) => J::Int(bb.as_usize() as i128),
            _ => J::Null,
        }
    }

    fn terminator(&self, t: &Terminator<'tcx>) -> J {
        let ln = self.cx.line(t.source_info.span);
        match &t.kind {
            TerminatorKind::Goto { target } => J::Arr(vec![s("goto"), J::Int(target.as_usize() as i128)]),
            TerminatorKind::SwitchInt { discr, targets } => {
                let mut arms = vec![];
                for (v, bb) in targets.iter() {
                    arms.push(J::Arr(vec![J::Int(v as i128), J::Int(bb.as_usize() as i128)]));
                }
                J::Arr(vec![
                    s("switch"),
                    self.operand(discr),
                    J::Arr(arms),
                    J::Int(targets.otherwise().as_usize() as i128),
                    ln,
                ])
            }
            TerminatorKind::UnwindResume => J::Arr(vec![s("resume")]),
            TerminatorKind::UnwindTerminate(_) => J::Arr(vec![s("terminate")]),
            TerminatorKind::Return => J::Arr(vec![s("ret"), ln]),
            TerminatorKind::Unreachable => J::Arr(vec![s("unreachable")]),
            TerminatorKind::Drop { place, target, unwind, .. } => {
                let pty = place.ty(&self.body.local_decls, self.cx.tcx).ty;
                J::Arr(vec![
                    s("drop"),
                    self.place(place),
                    J::Int(target.as_usize() as i128),
                    self.unwind(unwind),
                    s(self.cx.ty_s(pty)),
                    ln,
                ])
            }
            TerminatorKind::Call { func, args, destination, target, unwind, fn_span, .. } => {
                let _ = fn_span;
                J::Arr(vec![
                    s("call"),
                    self.callee(func),
                    J::Arr(args.iter().map(|a| self.operand(&a.node)).collect()),
                    self.place(destination),
                    match target {
                        Some(bb) => J::Int(bb.as_usize() as i128),
                        None => J::Null,
                    },
                    self.unwind(unwind),
                    ln,
                ])
            }
            TerminatorKind::TailCall { func, args, .. } => J::Arr(vec![
                s("tailcall"),
                self.callee(func),
                J::Arr(args.iter().map(|a| self.operand(&a.node)).collect()),
                ln,
            ]),
            TerminatorKind::Assert { cond, expected, target, unwind, msg } => J::Arr(vec![
                s("assert"),
                self.operand(cond),
                J::Bool(*expected),
                J::Int(target.as_usize() as i128),
                self.unwind(unwind),
                s(format!("{:?}", msg).chars().take(40).collect::<String>()),
                ln,
            ]),
            TerminatorKind::Yield { resume, .. } => {
                J::Arr(vec![s("yield"), J::Int(resume.as_usize() as i128)])
            }
            TerminatorKind::CoroutineDrop => J::Arr(vec![s("coroutine_drop")]),
            TerminatorKind::FalseEdge { real_target, .. } => {
                J::Arr(vec![s("goto"), J::Int(real_target.as_usize() as i128)])
            }
            TerminatorKind::FalseUnwind { real_target, .. } => {
                J::Arr(vec![s("goto"), J::Int(real_target.as_usize() as i128)])
            }
            TerminatorKind::InlineAsm { targets, .. } => J::Arr(vec![
                s("asm"),
                J::Arr(targets.iter().map(|b| J::Int(b.as_usize() as i128)).collect()),
            ]),
        }
    }

    fn statement(&self, st: &Statement<'tcx>) -> Option<J> {
        match &st.kind {
            StatementKind::Assign(b) => {
                let (p, r) = &**b;
                Some(J::Arr(vec![
                    s("a"),
                    self.place(p),
                    self.rvalue(r),
                    self.cx.line(st.source_info.span),
                ]))
            }
            StatementKind::SetDiscriminant { place, variant_index } => {
                let pty = place.ty(&self.body.local_decls, self.cx.tcx).ty;
                let mut name = format!("{}", variant_index.as_usize());
                if let ty::Adt(def, _) = pty.kind() {
                    if def.is_enum() {
                        name = def.variant(*variant_index).name.to_string();
                    }
                }
                Some(J::Arr(vec![
                    s("setdiscr"),
                    self.place(place),
                    s(name),
                    self.cx.line(st.source_info.span),
                ]))
            }
            StatementKind::Intrinsic(i) => match &**i {
                NonDivergingIntrinsic::CopyNonOverlapping(c) => Some(J::Arr(vec![
                    s("copy_nonoverlapping"),
                    self.operand(&c.src),
                    self.operand(&c.dst),
                    self.operand(&c.count),
                    self.cx.line(st.source_info.span),
                ])),
                NonDivergingIntrinsic::Assume(_) => None,
            },
            _ => None,
        }
    }
}

fn fn_fact<'tcx>(cx: &Cx<'tcx>, did: DefId) -> Option<J> {
    let tcx = cx.tcx;
    let dk = tcx.def_kind(did);
    let kind = match dk {
        DefKind::Fn => "fn",
        DefKind::AssocFn => "assoc",
        DefKind::Closure => "closure",
        _ => return None,
    };
    if !tcx.is_mir_available(did) {
        return None;
    }
    if tcx.is_coroutine(did) {
        return None;
    }
    let body: &Body<'tcx> = tcx.optimized_mir(did);
    let env = TypingEnv::post_analysis(tcx, did);
    let bcx = BodyCx { cx, body, env };
    let (file, line, exp, _) = cx.loc(tcx.def_span(did));

    // impl / trait association
    let mut impl_j = J::Null;
    let mut trait_item = J::Null;
    if dk == DefKind::AssocFn {
        if let Some(imp) = tcx.impl_of_assoc(did) {
            let self_ty = tcx.type_of(imp).instantiate_identity().skip_norm_wip();
            let tr = tcx
                .impl_opt_trait_ref(imp)
                .map(|t| full!(format!("{}", t.instantiate_identity().skip_norm_wip().print_only_trait_path())));
            let trd = tcx.impl_opt_trait_id(imp).map(|d| cx.path(d));
            impl_j = J::Obj(vec![
                ("self", s(cx.ty_s(self_ty))),
                ("self_adt", match self_ty.kind() {
                    ty::Adt(d, _) => s(cx.path(d.did())),
                    _ => J::Null,
                }),
                ("trait", tr.map(s).unwrap_or(J::Null)),
                ("trait_def", trd.map(s).unwrap_or(J::Null)),
            ]);
        } else if let Some(tr) = tcx.trait_of_assoc(did) {
            trait_item = s(cx.path(tr));
        }
    }
    let parent = if dk == DefKind::Closure {
        s(cx.path(tcx.parent(did)))
    } else {
        J::Null
    };

    let mut locals = vec![];
    for d in body.local_decls.iter() {
        locals.push(s(cx.ty_s(d.ty)));
    }
    let mut names = vec![];
    for v in body.var_debug_info.iter() {
        if let VarDebugInfoContents::Place(p) = &v.value {
            names.push(J::Arr(vec![s(v.name.to_string()), bcx.place(p)]));
        }
    }
    let mut blocks = vec![];
    for (_, bb) in body.basic_blocks.iter_enumerated() {
        let mut sts = vec![];
        for st in bb.statements.iter() {
            if let Some(j) = bcx.statement(st) {
                sts.push(j);
            }
        }
        let t = match &bb.terminator {
            Some(t) => bcx.terminator(t),
            None => J::Arr(vec![s("none")]),
        };
        blocks.push(J::Obj(vec![
            ("s", J::Arr(sts)),
            ("t", t),
            ("c", J::Bool(bb.is_cleanup)),
        ]));
    }
    let vis = if matches!(dk, DefKind::Fn | DefKind::AssocFn) {
        format!("{:?}", tcx.visibility(did))
    } else {
        String::new()
    };
    Some(J::Obj(vec![
        ("id", s(cx.path(did))),
        ("name", s(tcx.opt_item_name(did).map(|n| n.to_string()).unwrap_or_default())),
        ("kind", s(kind)),
        ("file", s(file)),
        ("line", J::Int(line as i128)),
        ("exp", J::Bool(exp)),
        ("vis", s(vis)),
        ("impl", impl_j),
        ("trait_item", trait_item),
        ("parent", parent),
        ("nargs", J::Int(body.arg_count as i128)),
        ("locals", J::Arr(locals)),
        ("names", J::Arr(names)),
        ("blocks", J::Arr(blocks)),
    ]))
}

fn adt_fact<'tcx>(cx: &Cx<'tcx>, did: DefId) -> J {
    let tcx = cx.tcx;
    let def = tcx.adt_def(did);
    let (file, line, exp, _) = cx.loc(tcx.def_span(did));
    let mut variants = vec![];
    let discrs: Vec<(rustc_abi::VariantIdx, u128)> = if def.is_enum() {
        def.discriminants(tcx).map(|(v, d)| (v, d.val)).collect()
    } else {
        vec![]
    };
    for (vi, v) in def.variants().iter_enumerated() {
        let mut fields = vec![];
        for f in v.fields.iter() {
            let fty = tcx.type_of(f.did).instantiate_identity().skip_norm_wip();
            fields.push(J::Obj(vec![
                ("name", s(f.name.to_string())),
                ("ty", cx.ty_j(fty, 0)),
                ("ty_s", s(cx.ty_s(fty))),
            ]));
        }
        let d = discrs.iter().find(|(x, _)| *x == vi).map(|(_, d)| J::Int(*d as i128)).unwrap_or(J::Null);
        variants.push(J::Obj(vec![
            ("name", s(v.name.to_string())),
            ("discr", d),
            ("fields", J::Arr(fields)),
        ]));
    }
    let generics = tcx.generics_of(did);
    let params: Vec<J> = generics.own_params.iter().map(|p| s(p.name.to_string())).collect();
    let repr = def.repr();
    J::Obj(vec![
        ("id", s(cx.path(did))),
        ("kind", s(if def.is_enum() { "enum" } else if def.is_union() { "union" } else { "struct" })),
        ("file", s(file)),
        ("line", J::Int(line as i128)),
        ("exp", J::Bool(exp)),
        ("repr_c", J::Bool(repr.c())),
        ("repr_transparent", J::Bool(repr.transparent())),
        ("repr_packed", J::Bool(repr.packed())),
        ("repr_int", match repr.int {
            Some(i) => s(format!("{:?}", i)),
            None => J::Null,
        }),
        ("params", J::Arr(params)),
        ("variants", J::Arr(variants)),
    ])
}

fn impl_fact<'tcx>(cx: &Cx<'tcx>, did: DefId) -> J {
    let tcx = cx.tcx;
    let self_ty = tcx.type_of(did).instantiate_identity().skip_norm_wip();
    let (file, line, exp, _) = cx.loc(tcx.def_span(did));
    let tr = tcx.impl_opt_trait_ref(did).map(|t| t.instantiate_identity().skip_norm_wip());
    let mut preds = vec![];
    for (p, _) in tcx.predicates_of(did).predicates.iter() {
        preds.push(s(full!(format!("{}", p))));
    }
    let mut items = vec![];
    let mut assoc_tys = vec![];
    for it in tcx.associated_items(did).in_definition_order() {
        items.push(J::Arr(vec![s(it.name().to_string()), s(cx.path(it.def_id))]));
        if it.is_type() {
            let aty = tcx.type_of(it.def_id).instantiate_identity().skip_norm_wip();
            let own: Vec<J> = tcx.generics_of(it.def_id).own_params.iter().map(|p| s(p.name.to_string())).collect();
            assoc_tys.push(J::Arr(vec![s(it.name().to_string()), cx.ty_j(aty, 0), J::Arr(own)]));
        }
    }
    let generics = tcx.generics_of(did);
    let params: Vec<J> = generics.own_params.iter().map(|p| s(p.name.to_string())).collect();
    let mut trait_args = vec![];
    if let Some(t) = tr {
        for g in t.args.iter().skip(1) {
            trait_args.push(s(full!(format!("{}", g))));
        }
    }
    J::Obj(vec![
        ("id", s(cx.path(did))),
        ("file", s(file)),
        ("line", J::Int(line as i128)),
        ("exp", J::Bool(exp)),
        ("self", cx.ty_j(self_ty, 0)),
        ("self_s", s(cx.ty_s(self_ty))),
        ("trait", tr.map(|t| s(cx.path(t.def_id))).unwrap_or(J::Null)),
        ("trait_args", J::Arr(trait_args)),
        ("params", J::Arr(params)),
        ("preds", J::Arr(preds)),
        ("items", J::Arr(items)),
        ("assoc_tys", J::Arr(assoc_tys)),
    ])
}

fn const_fact<'tcx>(cx: &Cx<'tcx>, did: DefId) -> Option<J> {
    let tcx = cx.tcx;
    let ty = tcx.type_of(did).instantiate_identity().skip_norm_wip();
    let mut val = J::Null;
    if ty.is_integral() || ty.is_bool() {
        if tcx.generics_of(did).count() == 0 {
            if let Ok(v) = tcx.const_eval_poly(did) {
                if let Some(si) = v.try_to_scalar_int() {
                    let size = si.size();
                    val = if ty.is_signed() { J::Int(si.to_int(size)) } else { J::Int(si.to_uint(size) as i128) };
                }
            }
        }
    }
    Some(J::Obj(vec![("id", s(cx.path(did))), ("ty", s(cx.ty_s(ty))), ("val", val)]))
}

fn trait_fact<'tcx>(cx: &Cx<'tcx>, did: DefId) -> J {
    let tcx = cx.tcx;
    let mut items = vec![];
    for it in tcx.associated_items(did).in_definition_order() {
        let has_default = it.defaultness(tcx).has_value();
        items.push(J::Arr(vec![s(it.name().to_string()), s(cx.path(it.def_id)), J::Bool(has_default)]));
    }
    let mut supers = vec![];
    for (c, _) in tcx.explicit_super_predicates_of(did).skip_binder().iter() {
        supers.push(s(full!(format!("{}", c))));
    }
    J::Obj(vec![("id", s(cx.path(did))), ("items", J::Arr(items)), ("supers", J::Arr(supers))])
}

fn dump<'tcx>(tcx: TyCtxt<'tcx>, out_dir: &str) {
    let cx = Cx { tcx };
    let crate_name = tcx.crate_name(LOCAL_CRATE).to_string();
    let mut fns = vec![];
    for ld in tcx.mir_keys(()).iter() {
        if let Some(j) = fn_fact(&cx, ld.to_def_id()) {
            fns.push(j);
        }
    }
    let mut adts = vec![];
    let mut impls = vec![];
    let mut consts = vec![];
    let mut traits = vec![];
    for ld in tcx.hir_crate_items(()).definitions() {
        let did = ld.to_def_id();
        match tcx.def_kind(did) {
            DefKind::Struct | DefKind::Enum | DefKind::Union => adts.push(adt_fact(&cx, did)),
            DefKind::Impl { .. } => impls.push(impl_fact(&cx, did)),
            DefKind::Const { .. } | DefKind::AssocConst { .. } => {
                if let Some(j) = const_fact(&cx, did) {
                    consts.push(j)
                }
            }
            DefKind::Trait => traits.push(trait_fact(&cx, did)),
            _ => {}
        }
    }
    let nf = fns.len();
    let j = J::Obj(vec![
        ("crate", s(crate_name.clone())),
        ("fns", J::Arr(fns)),
        ("adts", J::Arr(adts)),
        ("impls", J::Arr(impls)),
        ("consts", J::Arr(consts)),
        ("traits", J::Arr(traits)),
    ]);
    let mut out = String::with_capacity(1 << 24);
    j.write(&mut out);
    let tmp = format!("{}/{}.json.tmp.{}", out_dir, crate_name, std::process::id());
    let fin = format!("{}/{}.json", out_dir, crate_name);
    std::fs::write(&tmp, out.as_bytes()).expect("write facts");
    std::fs::rename(&tmp, &fin).expect("rename facts");
    eprintln!("iox2-facts: {} -> {} ({} bodies)", crate_name, fin, nf);
}

struct Cb {
    out: String,
}
impl rustc_driver::Callbacks for Cb {
    fn after_analysis<'tcx>(
        &mut self,
        _c: &rustc_interface::interface::Compiler,
        tcx: TyCtxt<'tcx>,
    ) -> rustc_driver::Compilation {
        dump(tcx, &self.out);
        rustc_driver::Compilation::Continue
    }
}
struct Plain;
impl rustc_driver::Callbacks for Plain {}

fn main() {
    let mut args: Vec<String> = std::env::args().collect();
    // invoked as wrapper: argv[1] is the real rustc path
    if args.len() > 1 && (args[1].ends_with("rustc") || args[1].contains("/rustc")) {
        args.remove(1);
    }
    let out = std::env::var("IOX2_FACTS_OUT").unwrap_or_default();
    let wanted = std::env::var("IOX2_FACTS_CRATES").unwrap_or_default();
    let mut crate_name = String::new();
    let mut i = 0;
    while i < args.len() {
        if args[i] == "--crate-name" && i + 1 < args.len() {
            crate_name = args[i + 1].clone();
        }
        i += 1;
    }
    let is_lib = args.windows(2).any(|w| w[0] == "--crate-type" && (w[1].contains("lib")));
    let is_test = args.iter().any(|a| a == "--test");
    let selected = !out.is_empty()
        && !crate_name.is_empty()
        && is_lib
        && !is_test
        && wanted.split(',').any(|c| c == crate_name);
    if selected {
        let mut cb = Cb { out };
        rustc_driver::run_compiler(&args, &mut cb);
    } else {
        rustc_driver::run_compiler(&args, &mut Plain);
    }
}
