// Copyright (c) 2026 Contributors to the Eclipse Foundation
//
// See the NOTICE file(s) distributed with this work for additional
// information regarding copyright ownership.
//
// This program and the accompanying materials are made available under the
// terms of the Apache Software License 2.0 which is available at
// https://www.apache.org/licenses/LICENSE-2.0, or the MIT license
// which is available at https://opensource.org/licenses/MIT.
//
// SPDX-License-Identifier: Apache-2.0 OR MIT

//! Regression test: when the delivery of a request fails
//! (`RequestSendError::SendError(SendError::UnableToDeliver)`) no `PendingResponse` is
//! handed out to the user. Such a request must therefore not be accounted as
//! active request, otherwise the `Client` is permanently blocked with
//! `RequestSendError::ExceedsMaxActiveRequests`.

extern crate iceoryx2_bb_loggers;

use iceoryx2::port::client::RequestSendError;
use iceoryx2::port::update_connections::UpdateConnections;
use iceoryx2::port::{BackpressureAction, SendError};
use iceoryx2::prelude::*;
use iceoryx2::testing::*;

fn request_that_could_not_be_delivered_is_not_an_active_request<S: Service>() {
    const MAX_ACTIVE_REQUESTS: usize = 1;
    const NUMBER_OF_FAILED_DELIVERIES: usize = 3;

    let config = generate_isolated_config();
    let node = NodeBuilder::new().config(&config).create::<S>().unwrap();
    let service = node
        .service_builder(&generate_service_name())
        .request_response::<u64, u64>()
        // the servers request buffer has the size of max_active_requests_per_client
        .max_active_requests_per_client(MAX_ACTIVE_REQUESTS)
        .enable_safe_overflow_for_requests(false)
        .create()
        .unwrap();

    let server = service.server_builder().create().unwrap();
    let sut = service
        .client_builder()
        .set_backpressure_handler(|_| BackpressureAction::DiscardDataAndFail)
        .create()
        .unwrap();

    // the server must be connected to the client, otherwise a full request buffer is handled
    // like a disconnected server and the request is silently discarded
    server.update_connections().unwrap();

    // fill the request buffer of the server; the server does not receive the request
    let pending_response = sut.send_copy(1);
    assert!(pending_response.is_ok());
    // the client has no more active requests
    drop(pending_response);

    // the servers request buffer is full, the backpressure handler lets the delivery fail,
    // no PendingResponse is created, the client still has zero active requests
    for _ in 0..NUMBER_OF_FAILED_DELIVERIES {
        let result = sut.send_copy(2);
        assert_eq!(
            result.err(),
            Some(RequestSendError::SendError(SendError::UnableToDeliver))
        );
    }

    // the server makes room for new requests
    let active_request = server.receive().unwrap().unwrap();
    assert_eq!(*active_request, 1);
    drop(active_request);
    assert!(server.receive().unwrap().is_none());

    // the client has zero active requests and the server has an empty request buffer, the
    // request must be delivered
    let pending_response = sut.send_copy(3);
    assert_eq!(pending_response.as_ref().err(), None);
    let pending_response = pending_response.unwrap();

    // and the request-response stream must work
    let active_request = server.receive().unwrap().unwrap();
    assert_eq!(*active_request, 3);
    active_request.send_copy(33).unwrap();
    assert_eq!(*pending_response.receive().unwrap().unwrap(), 33);
}

#[test]
fn request_that_could_not_be_delivered_is_not_an_active_request_ipc() {
    request_that_could_not_be_delivered_is_not_an_active_request::<ipc::Service>();
}

#[test]
fn request_that_could_not_be_delivered_is_not_an_active_request_local() {
    request_that_could_not_be_delivered_is_not_an_active_request::<local::Service>();
}
