// Copyright (c) 2026 Contributors to the Eclipse Foundation
//
// See the NOTICE file(s) distributed with this work for additional
// information regarding copyright ownership.
//
// This program and the accompanying materials are made available under the
// terms of the Apache Software License 2.0 which is available at
// https://www.apache.org/licenses/LICENSE-2.0, or the MIT license
// which is available at https://opensource.org/licenses/MIT.
//
// SPDX-License-Identifier: Apache-2.0 OR MIT

//! Regression test: a `WaitSet::attach_deadline()` call that is refused with
//! `WaitSetAttachmentError::InsufficientCapacity` must not leave any bookkeeping
//! behind in the `WaitSet`.
//!
//! On Linux the recommended reactor is epoll whose capacity is
//! `/proc/sys/fs/epoll/max_user_watches` (millions), so the capacity cannot be
//! exhausted in a test. Therefore a custom service variant (see
//! `examples/rust/service_variant_customization`) is used that is identical to
//! `ipc::Service` but uses the `posix_select` reactor (capacity == FD_SETSIZE).

extern crate iceoryx2_bb_loggers;

use core::fmt::Debug;
use core::time::Duration;

use iceoryx2::prelude::*;
use iceoryx2::testing::*;
use iceoryx2::waitset::WaitSetAttachmentError;
use iceoryx2_bb_elementary_traits::testing::abandonable::Abandonable;
use iceoryx2_cal::shm_allocator::bump_allocator::BumpAllocator;
use iceoryx2_cal::shm_allocator::pool_allocator::PoolAllocator;

#[derive(Debug, Clone)]
pub struct PosixSelectService {}

impl iceoryx2::service::Service for PosixSelectService {
    type StaticStorage = iceoryx2_cal::static_storage::recommended::Ipc;
    type ConfigSerializer = iceoryx2_cal::serialize::recommended::Recommended;
    type PersistentDynamicStorage<T: Debug + Send + Sync + ZeroCopySend + 'static> =
        iceoryx2_cal::dynamic_storage::recommended::PersistentIpc<T>;
    type DynamicStorage<T: Debug + Send + Sync + ZeroCopySend + 'static> =
        iceoryx2_cal::dynamic_storage::recommended::Ipc<T>;
    type ServiceNameHasher = iceoryx2_cal::hash::recommended::Recommended;
    type SharedMemory = iceoryx2_cal::shared_memory::recommended::Ipc<PoolAllocator>;
    type ResizableSharedMemory =
        iceoryx2_cal::resizable_shared_memory::recommended::Ipc<PoolAllocator>;
    type Connection = iceoryx2_cal::zero_copy_connection::recommended::Ipc;
    type Event = iceoryx2_cal::event::recommended::Ipc;
    type Monitoring = iceoryx2_cal::monitoring::recommended::Ipc;
    // the only difference to ipc::Service, a reactor with a small capacity
    type Reactor = iceoryx2_cal::reactor::posix_select::Reactor;
    type ArcThreadSafetyPolicy<T: Send + Debug + Abandonable> =
        iceoryx2_cal::arc_sync_policy::single_threaded::SingleThreaded<T>;
    type BlackboardMgmt<KeyType: Send + Sync + Debug + ZeroCopySend + 'static> =
        iceoryx2_cal::dynamic_storage::recommended::Ipc<KeyType>;
    type BlackboardPayload = iceoryx2_cal::shared_memory::recommended::Ipc<BumpAllocator>;
}

impl iceoryx2::service::internal::ServiceInternal<PosixSelectService> for PosixSelectService {}

/// Extracts the content of the `BTreeMap` stored in the field `name` out of the `Debug` output
/// of the `WaitSet`, e.g. `{}` for an empty map.
fn debug_map_field<S: Service>(sut: &WaitSet<S>, name: &str) -> String {
    let dbg = format!("{sut:?}");
    let field_start = dbg
        .find(&format!("{name}: "))
        .unwrap_or_else(|| panic!("field {name} not part of {dbg}"));
    let map_start = field_start
        + dbg[field_start..]
            .find("value: {")
            .expect("a RefCell<BTreeMap>")
        + "value: ".len();

    let mut depth = 0;
    for (n, c) in dbg[map_start..].char_indices() {
        match c {
            '{' => depth += 1,
            '}' => {
                depth -= 1;
                if depth == 0 {
                    return dbg[map_start..=map_start + n].to_string();
                }
            }
            _ => (),
        }
    }

    panic!("unbalanced braces in {dbg}");
}

#[test]
fn attach_deadline_refused_due_to_insufficient_capacity_has_no_side_effects() {
    type S = PosixSelectService;
    const NUMBER_OF_REFUSED_ATTACHMENTS: usize = 3;

    let config = generate_isolated_config();
    let node = NodeBuilder::new().config(&config).create::<S>().unwrap();
    let event = node
        .service_builder(&generate_service_name())
        .event()
        .create()
        .unwrap();
    let listener = event.listener_builder().create().unwrap();

    let sut = WaitSetBuilder::new().create::<S>().unwrap();
    assert!(sut.capacity() <= 4096, "capacity too large for this test");

    // Fill the WaitSet up to its capacity with intervals. They occupy a slot in the
    // WaitSet (attachment counter) but not in the underlying reactor, so that
    // attach_deadline() passes the reactor attachment and is refused afterwards.
    let mut intervals = vec![];
    for _ in 0..sut.capacity() {
        intervals.push(sut.attach_interval(Duration::from_secs(3600)).unwrap());
    }
    assert_eq!(sut.len(), sut.capacity());

    let attachment_to_deadline_before = debug_map_field(&sut, "attachment_to_deadline");
    let deadline_to_attachment_before = debug_map_field(&sut, "deadline_to_attachment");
    assert_eq!(attachment_to_deadline_before, "{}");
    assert_eq!(deadline_to_attachment_before, "{}");

    for _ in 0..NUMBER_OF_REFUSED_ATTACHMENTS {
        let result = sut.attach_deadline(&listener, Duration::from_secs(3600));
        assert_eq!(
            result.err(),
            Some(WaitSetAttachmentError::InsufficientCapacity)
        );
    }

    println!(
        "after {NUMBER_OF_REFUSED_ATTACHMENTS} refused attach_deadline() calls: attachment_to_deadline = {}, deadline_to_attachment = {}",
        debug_map_field(&sut, "attachment_to_deadline"),
        debug_map_field(&sut, "deadline_to_attachment")
    );

    // the refused attachment must not occupy a slot ...
    assert_eq!(sut.len(), sut.capacity());

    // ... and must not leave stale deadline bookkeeping behind
    assert_eq!(
        debug_map_field(&sut, "attachment_to_deadline"),
        attachment_to_deadline_before
    );
    assert_eq!(
        debug_map_field(&sut, "deadline_to_attachment"),
        deadline_to_attachment_before
    );

    // after everything is detached the WaitSet must be pristine again
    drop(intervals);
    assert!(sut.is_empty());
    assert_eq!(
        debug_map_field(&sut, "deadline_to_attachment"),
        deadline_to_attachment_before
    );

    // the object can still be attached as deadline and the bookkeeping is cleaned up on detach
    let guard = sut
        .attach_deadline(&listener, Duration::from_secs(3600))
        .unwrap();
    assert_eq!(sut.len(), 1);
    drop(guard);
    assert_eq!(
        debug_map_field(&sut, "attachment_to_deadline"),
        attachment_to_deadline_before
    );
    assert_eq!(
        debug_map_field(&sut, "deadline_to_attachment"),
        deadline_to_attachment_before
    );
}
