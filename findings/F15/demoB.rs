// Demonstration for finding F14-B (process dies while a port tag / service tag / the node details
// file is in the locked state of the file based static storage).
//
// Copy to: iceoryx2/tests/f14b_demo.rs
// Run:     cargo test --offline -p iceoryx2 --test f14b_demo -- --test-threads 1 --nocapture
//
// A REAL child process (re-execution of this test binary) creates a node, opens the service of
// the parent and creates a publisher. A logger that is installed in the child only (test hook,
// nothing is added to the product) kills the child with SIGABRT at the instant the posix layer
// reports (trace log) that `FileBuilder::create()` has created the tag file exclusively with the
// initial permissions (rw-------, "locked" state of `static_storage::file`), i.e. the process
// dies between `create_locked()` and `unlock()` inside of `StaticStorageBuilder::create(&[])`.
//
// The surviving parent then has to detect the dead node, has to be able to remove all of its
// stale resources and afterwards no file / directory / shared memory object that was owned by the
// dead process is allowed to remain.

use std::collections::BTreeSet;
use std::os::unix::process::ExitStatusExt;
use std::path::Path;
use std::sync::atomic::{AtomicBool, Ordering};

use iceoryx2::node::{NodeCleanupFailure, NodeState, NodeView};
use iceoryx2::prelude::*;
use iceoryx2::testing::generate_isolated_config;
use iceoryx2_bb_container::semantic_string::SemanticString;
use iceoryx2_bb_system_types::file_name::FileName;

const ENV_PREFIX: &str = "F14B_CHILD_PREFIX";
const ENV_ORIGIN: &str = "F14B_CHILD_CRASH_ORIGIN";
const ENV_MESSAGE: &str = "F14B_CHILD_CRASH_MESSAGE";
const ENV_ARM: &str = "F14B_CHILD_ARM";
const SERVICE_NAME: &str = "f14b_demo_service";

type S = ipc::Service;

/// Every run uses its own root path `<TEST_DIRECTORY>/<unique prefix>/` so that concurrently
/// running tests of other test binaries cannot interfere.
fn config_with_prefix(prefix: Option<&str>) -> Config {
    let mut config = generate_isolated_config();
    if let Some(prefix) = prefix {
        config.global.prefix = FileName::new(prefix.as_bytes()).unwrap();
    }
    let mut root_path = *config.global.root_path();
    root_path
        .add_path_entry(&config.global.prefix.into())
        .unwrap();
    config.global.set_root_path(&root_path);
    config.global.node.cleanup_dead_nodes_on_creation = false;
    config.global.node.cleanup_dead_nodes_on_destruction = false;
    config.global.service.cleanup_dead_nodes_on_open = false;
    config
}

// ---------------------------------------------------------------------------
// child side
// ---------------------------------------------------------------------------

static ARMED: AtomicBool = AtomicBool::new(false);

struct CrashingLogger {
    origin: String,
    message: String,
}

impl iceoryx2_log::Log for CrashingLogger {
    fn log(
        &self,
        _log_level: LogLevel,
        origin: core::fmt::Arguments,
        formatted_message: core::fmt::Arguments,
    ) {
        if !ARMED.load(Ordering::Relaxed) {
            return;
        }

        let origin = origin.to_string();
        let message = formatted_message.to_string();
        if std::env::var("F14B_CHILD_VERBOSE").is_ok() {
            eprintln!("[child] {origin} :: {message}");
        }
        if origin.contains(&self.origin) && message.contains(&self.message) {
            eprintln!("[child] simulated kill at: {origin} :: {message}");
            // no destructors, no atexit handlers - the process is gone
            std::process::abort();
        }
    }
}

/// Is a no-op when it is started as part of the normal test run. Only when the parent test starts
/// the test binary again with the environment variables set it acts as the process that is going
/// to die.
#[test]
fn f14b_child_process() {
    let Ok(prefix) = std::env::var(ENV_PREFIX) else {
        return;
    };
    let logger: &'static CrashingLogger = Box::leak(Box::new(CrashingLogger {
        origin: std::env::var(ENV_ORIGIN).unwrap(),
        message: std::env::var(ENV_MESSAGE).unwrap(),
    }));
    assert!(set_logger(logger));
    set_log_level(LogLevel::Trace);
    let arm_at = std::env::var(ENV_ARM).unwrap();

    let config = config_with_prefix(Some(&prefix));
    let node = NodeBuilder::new().config(&config).create::<S>().unwrap();

    if arm_at == "open_service" {
        ARMED.store(true, Ordering::Relaxed);
    }
    let service = node
        .service_builder(&ServiceName::new(SERVICE_NAME).unwrap())
        .publish_subscribe::<u64>()
        .open()
        .unwrap();

    if arm_at == "create_port" {
        ARMED.store(true, Ordering::Relaxed);
    }
    let publisher = service.publisher_builder().create().unwrap();

    // must never be reached, the parent verifies that the child was killed by a signal
    ARMED.store(false, Ordering::Relaxed);
    drop(publisher);
    drop(service);
    drop(node);
}

// ---------------------------------------------------------------------------
// parent side
// ---------------------------------------------------------------------------

fn collect_files(dir: &Path, result: &mut BTreeSet<String>) {
    let Ok(entries) = std::fs::read_dir(dir) else {
        return;
    };
    for entry in entries.flatten() {
        let path = entry.path();
        if path.is_dir() {
            collect_files(&path, result);
        } else {
            result.insert(path.to_string_lossy().to_string());
        }
    }
}

/// all sub directories of <root>/nodes/, i.e. the node details directories
fn node_directories(config: &Config) -> BTreeSet<String> {
    let mut result = BTreeSet::new();
    if let Ok(entries) = std::fs::read_dir(config.global.node_dir().to_string()) {
        for entry in entries.flatten() {
            if entry.path().is_dir() {
                result.insert(entry.path().to_string_lossy().to_string() + "/");
            }
        }
    }
    result
}

/// every file in the isolated root path, every node details directory and everything in the
/// shared memory directory that carries the unique prefix of this test
fn resources(config: &Config, prefix: &str) -> BTreeSet<String> {
    let mut result = node_directories(config);
    collect_files(Path::new(&config.global.root_path().to_string()), &mut result);
    if let Ok(entries) = std::fs::read_dir("/dev/shm") {
        for entry in entries.flatten() {
            if entry.path().to_string_lossy().contains(prefix) {
                result.insert(entry.path().to_string_lossy().to_string());
            }
        }
    }
    result
}

fn run(arm_at: &str, crash_origin: &str, crash_message: &str) {
    let config = config_with_prefix(None);
    let prefix = config.global.prefix.to_string();

    let node = NodeBuilder::new().config(&config).create::<S>().unwrap();
    let service = node
        .service_builder(&ServiceName::new(SERVICE_NAME).unwrap())
        .publish_subscribe::<u64>()
        .max_publishers(1)
        .max_subscribers(1)
        .max_nodes(2)
        .create()
        .unwrap();
    let subscriber = service.subscriber_builder().create().unwrap();
    let resources_before = resources(&config, &prefix);

    let status = std::process::Command::new(std::env::current_exe().unwrap())
        .args([
            "f14b_child_process",
            "--exact",
            "--nocapture",
            "--test-threads",
            "1",
        ])
        .env(ENV_PREFIX, &prefix)
        .env(ENV_ORIGIN, crash_origin)
        .env(ENV_MESSAGE, crash_message)
        .env(ENV_ARM, arm_at)
        .status()
        .unwrap();
    assert_eq!(
        status.signal(),
        Some(6),
        "the child process must have been killed at the crash point ({status:?})"
    );

    let resources_of_dead_node: Vec<String> = resources(&config, &prefix)
        .difference(&resources_before)
        .cloned()
        .collect();
    println!("resources of the dead node after the crash: {resources_of_dead_node:#?}");
    for entry in &resources_of_dead_node {
        if let Ok(metadata) = std::fs::metadata(entry) {
            use std::os::unix::fs::PermissionsExt;
            println!("  mode {:o} {entry}", metadata.permissions().mode() & 0o7777);
        }
    }

    // the dead node is reported as dead and its stale resources can be removed; a failed cleanup
    // is repeated a few times like a periodic `Node::cleanup_dead_nodes()` call would do it
    let mut cleanup_results: Vec<Result<(), NodeCleanupFailure>> = vec![];
    for attempt in 0..3 {
        let mut dead_nodes = vec![];
        let mut alive_nodes = 0;
        Node::<S>::list(&config, |state| {
            match state {
                NodeState::Dead(view) => dead_nodes.push(view),
                NodeState::Alive(_) => alive_nodes += 1,
                state => panic!("unexpected node state {state:?}"),
            }
            CallbackProgression::Continue
        })
        .unwrap();
        println!(
            "attempt {attempt}: Node::list(): {alive_nodes} alive node(s), {} dead node(s)",
            dead_nodes.len()
        );
        assert_eq!(alive_nodes, 1);
        if attempt == 0 {
            assert_eq!(dead_nodes.len(), 1);
        }
        if dead_nodes.is_empty() {
            break;
        }
        for dead_node in dead_nodes {
            let has_details = dead_node.details().is_some();
            let result = dead_node.try_remove_stale_resources();
            println!("attempt {attempt}: dead node has details: {has_details}, try_remove_stale_resources() = {result:?}");
            cleanup_results.push(result);
        }
    }
    let cleanup_state = node.try_cleanup_dead_nodes();
    println!("Node::try_cleanup_dead_nodes() = {cleanup_state:?}");

    let mut number_of_nodes = 0;
    Node::<S>::list(&config, |_| {
        number_of_nodes += 1;
        CallbackProgression::Continue
    })
    .unwrap();

    // the shared service is fully usable by the survivor
    let number_of_publishers = service.dynamic_config().number_of_publishers();
    let mut nodes_of_service = 0;
    service
        .nodes(|_| {
            nodes_of_service += 1;
            CallbackProgression::Continue
        })
        .unwrap();
    {
        let publisher = service.publisher_builder().create().unwrap();
        publisher.send_copy(5678).unwrap();
        assert_eq!(*subscriber.receive().unwrap().unwrap(), 5678);
        assert!(subscriber.receive().unwrap().is_none());
    }

    // nothing that was owned solely by the dead node remains: after the survivor has shut down
    // in an orderly fashion and the domain-wide management segment (persists by design) is
    // removed, nothing is allowed to exist
    drop(subscriber);
    drop(service);
    drop(node);
    unsafe { iceoryx2::testing::remove_global_mgmt_segment::<S>(&config).unwrap() };

    let remaining = resources(&config, &prefix);
    // do not pollute the machine when the demonstration fails
    let _ = std::fs::remove_dir_all(config.global.root_path().to_string());
    for leaked in &remaining {
        let _ = std::fs::remove_file(leaked);
    }

    println!("remaining resources after the orderly shutdown of the survivor: {remaining:#?}");
    assert_eq!(
        cleanup_results,
        vec![Ok(())],
        "the first cleanup of the dead node must succeed"
    );
    assert_eq!(cleanup_state.failed_cleanups, 0);
    assert_eq!(number_of_nodes, 1, "the dead node is still listed");
    assert_eq!(number_of_publishers, 0);
    assert_eq!(nodes_of_service, 1);
    assert!(
        remaining.is_empty(),
        "stale resources of the dead node remain: {remaining:#?}"
    );
}

// The crash point is the trace message "created" of `FileBuilder::create()` (origin = Debug of
// the FileBuilder, contains the file path). It is emitted after open(O_CREAT|O_EXCL) and
// fchmod(INIT_PERMISSIONS) returned, the next thing that happens to the file is
// `Locked::unlock()` (write, fsync, fchmod(FINAL_PERMISSIONS)).

/// `SharedNode::create_port_tag()`: the process dies between `create_locked()` and `unlock()`
#[test]
fn f14b_dead_node_can_be_cleaned_up_when_process_died_while_port_tag_was_locked() {
    run("create_port", ".port_tag", "created");
}

/// `SharedNode::create_service_tag()`: the process dies between `create_locked()` and `unlock()`
#[test]
fn f14b_dead_node_can_be_cleaned_up_when_process_died_while_service_tag_was_locked() {
    run("open_service", ".service_tag", "created");
}

/// Control: the process dies right after the port tag was unlocked (final permission r--------
/// applied). The tag is visible for the cleanup, works with and without fix.
#[test]
fn f14b_dead_node_can_be_cleaned_up_when_process_died_right_after_port_tag_was_unlocked() {
    run("create_port", ".port_tag", "set permission to: r--------");
}
