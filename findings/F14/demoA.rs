// Demonstration for finding F14-A (node creation order: details storage before monitoring token).
//
// Copy to: iceoryx2/tests/f14a_demo.rs
// Run:     cargo test --offline -p iceoryx2 --test f14a_demo -- --test-threads 1 --nocapture
//
// A REAL child process (re-execution of this test binary) creates a node with
// `NodeBuilder::create()`. A logger that is installed in the child only (test hook, nothing is
// added to the product) kills the child with SIGABRT at the instant a specific trace message of
// the posix layer is emitted, i.e. the process dies between two system calls in the middle of
// `NodeBuilder::__internal_create_with_custom_node_id()`.
//
// The surviving parent then lists all nodes, performs a dead node cleanup, shuts down orderly and
// verifies that nothing that was owned solely by the dead process remains in `<root>/nodes/`.

use std::collections::BTreeSet;
use std::os::unix::process::ExitStatusExt;
use std::path::Path;
use std::sync::atomic::{AtomicBool, AtomicUsize, Ordering};

use iceoryx2::node::{NodeState, NodeView};
use iceoryx2::prelude::*;
use iceoryx2::testing::generate_isolated_config;
use iceoryx2_bb_container::semantic_string::SemanticString;
use iceoryx2_bb_system_types::file_name::FileName;

const ENV_PREFIX: &str = "F14A_CHILD_PREFIX";
const ENV_ORIGIN: &str = "F14A_CHILD_CRASH_ORIGIN";
const ENV_MESSAGE: &str = "F14A_CHILD_CRASH_MESSAGE";
const ENV_OCCURRENCE: &str = "F14A_CHILD_CRASH_OCCURRENCE";

type S = ipc::Service;

/// Every run uses its own root path `<TEST_DIRECTORY>/<unique prefix>/` so that concurrently
/// running tests of other test binaries cannot interfere.
fn config_with_prefix(prefix: Option<&str>) -> Config {
    let mut config = generate_isolated_config();
    if let Some(prefix) = prefix {
        config.global.prefix = FileName::new(prefix.as_bytes()).unwrap();
    }
    let mut root_path = *config.global.root_path();
    root_path
        .add_path_entry(&config.global.prefix.into())
        .unwrap();
    config.global.set_root_path(&root_path);
    config.global.node.cleanup_dead_nodes_on_creation = false;
    config.global.node.cleanup_dead_nodes_on_destruction = false;
    config.global.service.cleanup_dead_nodes_on_open = false;
    config
}

// ---------------------------------------------------------------------------
// child side
// ---------------------------------------------------------------------------

static ARMED: AtomicBool = AtomicBool::new(false);
static OCCURRENCE: AtomicUsize = AtomicUsize::new(0);

struct CrashingLogger {
    origin: String,
    message: String,
    occurrence: usize,
}

impl iceoryx2_log::Log for CrashingLogger {
    fn log(
        &self,
        _log_level: LogLevel,
        origin: core::fmt::Arguments,
        formatted_message: core::fmt::Arguments,
    ) {
        if !ARMED.load(Ordering::Relaxed) {
            return;
        }

        let origin = origin.to_string();
        let message = formatted_message.to_string();
        if std::env::var("F14A_CHILD_VERBOSE").is_ok() {
            eprintln!("[child] {origin} :: {message}");
        }
        if origin.contains(&self.origin)
            && message.contains(&self.message)
            && OCCURRENCE.fetch_add(1, Ordering::Relaxed) + 1 == self.occurrence
        {
            eprintln!("[child] simulated kill at: {origin} :: {message}");
            // no destructors, no atexit handlers - the process is gone
            std::process::abort();
        }
    }
}

/// Is a no-op when it is started as part of the normal test run. Only when the parent test starts
/// the test binary again with the environment variables set it acts as the process that is going
/// to die.
#[test]
fn f14a_child_process() {
    let Ok(prefix) = std::env::var(ENV_PREFIX) else {
        return;
    };
    let logger: &'static CrashingLogger = Box::leak(Box::new(CrashingLogger {
        origin: std::env::var(ENV_ORIGIN).unwrap(),
        message: std::env::var(ENV_MESSAGE).unwrap(),
        occurrence: std::env::var(ENV_OCCURRENCE).unwrap().parse().unwrap(),
    }));
    assert!(set_logger(logger));
    set_log_level(LogLevel::Trace);

    let config = config_with_prefix(Some(&prefix));

    ARMED.store(true, Ordering::Relaxed);
    let node = NodeBuilder::new().config(&config).create::<S>().unwrap();

    // must never be reached, the parent verifies that the child was killed by a signal
    ARMED.store(false, Ordering::Relaxed);
    drop(node);
}

// ---------------------------------------------------------------------------
// parent side
// ---------------------------------------------------------------------------

fn collect_files(dir: &Path, result: &mut BTreeSet<String>) {
    let Ok(entries) = std::fs::read_dir(dir) else {
        return;
    };
    for entry in entries.flatten() {
        let path = entry.path();
        if path.is_dir() {
            collect_files(&path, result);
        } else {
            result.insert(path.to_string_lossy().to_string());
        }
    }
}

/// all sub directories of <root>/nodes/, i.e. the node details directories
fn node_directories(config: &Config) -> BTreeSet<String> {
    let mut result = BTreeSet::new();
    if let Ok(entries) = std::fs::read_dir(config.global.node_dir().to_string()) {
        for entry in entries.flatten() {
            if entry.path().is_dir() {
                result.insert(entry.path().to_string_lossy().to_string() + "/");
            }
        }
    }
    result
}

/// every file in the isolated root path, every node details directory and everything in the
/// shared memory directory that carries the unique prefix of this test
fn resources(config: &Config, prefix: &str) -> BTreeSet<String> {
    let mut result = node_directories(config);
    collect_files(Path::new(&config.global.root_path().to_string()), &mut result);
    if let Ok(entries) = std::fs::read_dir("/dev/shm") {
        for entry in entries.flatten() {
            if entry.path().to_string_lossy().contains(prefix) {
                result.insert(entry.path().to_string_lossy().to_string());
            }
        }
    }
    result
}

fn run(crash_origin: &str, crash_message: &str, occurrence: usize) {
    let config = config_with_prefix(None);
    let prefix = config.global.prefix.to_string();

    let node = NodeBuilder::new().config(&config).create::<S>().unwrap();
    let node_directories_before = node_directories(&config);

    let status = std::process::Command::new(std::env::current_exe().unwrap())
        .args([
            "f14a_child_process",
            "--exact",
            "--nocapture",
            "--test-threads",
            "1",
        ])
        .env(ENV_PREFIX, &prefix)
        .env(ENV_ORIGIN, crash_origin)
        .env(ENV_MESSAGE, crash_message)
        .env(ENV_OCCURRENCE, occurrence.to_string())
        .status()
        .unwrap();
    assert_eq!(
        status.signal(),
        Some(6),
        "the child process must have been killed at the crash point ({status:?})"
    );

    let new_node_directories: Vec<String> = node_directories(&config)
        .difference(&node_directories_before)
        .cloned()
        .collect();
    println!("state after the crash: {:#?}", resources(&config, &prefix));
    println!("new node directories after the crash: {new_node_directories:?}");

    // every node that is listed as dead can be cleaned up
    let mut alive_nodes = 0;
    let mut dead_nodes = vec![];
    Node::<S>::list(&config, |state| {
        match state {
            NodeState::Dead(view) => dead_nodes.push(view),
            NodeState::Alive(_) => alive_nodes += 1,
            state => panic!("unexpected node state {state:?}"),
        }
        CallbackProgression::Continue
    })
    .unwrap();
    println!(
        "Node::list(): {alive_nodes} alive node(s), {} dead node(s)",
        dead_nodes.len()
    );
    let mut violations: Vec<String> = vec![];
    if alive_nodes != 1 {
        violations.push(format!("{alive_nodes} alive nodes instead of 1"));
    }
    for dead_node in dead_nodes {
        let has_details = dead_node.details().is_some();
        let result = dead_node.try_remove_stale_resources();
        println!("dead node has details: {has_details}, try_remove_stale_resources() = {result:?}");
        if result != Ok(()) {
            violations.push(format!("try_remove_stale_resources() = {result:?}"));
        }
    }
    let cleanup_state = node.try_cleanup_dead_nodes();
    println!("Node::try_cleanup_dead_nodes(): {cleanup_state:?}");
    if cleanup_state.failed_cleanups != 0 {
        violations.push(format!("{cleanup_state:?}"));
    }

    let mut number_of_nodes = 0;
    Node::<S>::list(&config, |_| {
        number_of_nodes += 1;
        CallbackProgression::Continue
    })
    .unwrap();
    if number_of_nodes != 1 {
        violations.push(format!("{number_of_nodes} nodes are listed instead of 1"));
    }

    // nothing that was owned solely by the dead node remains: after the survivor has shut down
    // in an orderly fashion and the domain-wide management segment (persists by design) is
    // removed, nothing with the unique prefix of this test is allowed to exist
    drop(node);
    unsafe { iceoryx2::testing::remove_global_mgmt_segment::<S>(&config).unwrap() };

    let remaining = resources(&config, &prefix);
    // do not pollute the machine when the demonstration fails
    let _ = std::fs::remove_dir_all(config.global.root_path().to_string());
    for leaked in &remaining {
        let _ = std::fs::remove_file(leaked);
    }
    for dir in &new_node_directories {
        if remaining.contains(dir) {
            violations.push(format!("the node details directory {dir} of the dead node remains"));
        }
    }
    if !remaining.is_empty() {
        violations.push(format!("stale resources of the dead node remain: {remaining:#?}"));
    }
    assert!(violations.is_empty(), "{violations:#?}");
}

// The crash points are identified by trace messages of the posix layer:
//
//  * `File::set_permission()` emits "set permission to: <perm>" (origin = Debug of the File,
//    contains the file path) after fchmod returned
//  * `FileBuilder::create()` emits "created" (origin = Debug of the FileBuilder, contains the
//    file path) after open(O_CREAT|O_EXCL) + fchmod(INIT_PERMISSIONS) returned
//  * `ProcessGuardBuilder::create()` emits "create process state ... for monitoring" after all
//    three files of the monitoring token are created, locked and initialized

/// F14-A: the process dies right after the last step of the creation of the node details storage
/// (`unlock()`: fchmod to the final permission r--------) returned.
///
/// unmodified code: `<root>/nodes/<node_id>/<prefix>node.details` exists completely, nothing of
///   the monitoring token exists => the node is never listed, directory + file remain for ever
/// with fix A: the monitoring token exists already => dead node is listed and cleaned up
#[test]
fn f14a_nothing_remains_when_process_dies_right_after_the_node_details_storage_was_created() {
    run("node.details", "set permission to: r--------", 1);
}

/// The process dies right after the monitoring token was completely created.
///
/// unmodified code: details storage + token exist (control, works)
/// with fix A: only the token exists, the dead node is listed with `details() == None` and the
///   cleanup has to work without the details
#[test]
fn f14a_nothing_remains_when_process_dies_right_after_the_monitoring_token_was_created() {
    run("ProcessGuard::new()", "for monitoring", 1);
}

/// The process dies right after the node details file was created exclusively, it is still in the
/// locked state (permission rw-------), no content.
///
/// unmodified code: same as the first test, nothing of the token exists => leak
/// with fix A only: token exists, dead node is listed but the cleanup fails for ever since the
///   locked details file is invisible for `list_cfg()` and the directory cannot be removed (F14-B)
/// with fix A + fix B: cleaned up
#[test]
fn f14a_nothing_remains_when_process_dies_while_the_node_details_file_is_locked() {
    run("node.details", "created", 1);
}
