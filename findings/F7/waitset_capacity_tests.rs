// Copyright (c) 2026 Contributors to the Eclipse Foundation
//
// See the NOTICE file(s) distributed with this work for additional
// information regarding copyright ownership.
//
// This program and the accompanying materials are made available under the
// terms of the Apache Software License 2.0 which is available at
// https://www.apache.org/licenses/LICENSE-2.0, or the MIT license
// which is available at https://opensource.org/licenses/MIT.
//
// SPDX-License-Identifier: Apache-2.0 OR MIT

//! Regression test: when the reactor of a [`WaitSet`] reports that its capacity is exceeded
//! the [`WaitSet`] must report [`WaitSetAttachmentError::InsufficientCapacity`] and not
//! [`WaitSetAttachmentError::AlreadyAttached`].
//!
//! The capacity of the platform reactors cannot be exhausted in a test (linux epoll:
//! `/proc/sys/fs/epoll/max_user_watches`, millions of entries), therefore a custom service
//! variant is used (see `examples/rust/service_variant_customization`) whose reactor forwards
//! everything to the recommended reactor of the platform but has a capacity of
//! `REACTOR_CAPACITY`.

extern crate iceoryx2_bb_loggers;

use core::fmt::Debug;
use core::time::Duration;

use iceoryx2::prelude::*;
use iceoryx2::waitset::WaitSetAttachmentError;
use iceoryx2_bb_elementary_traits::testing::abandonable::Abandonable;
use iceoryx2_bb_posix::file_descriptor::FileDescriptor;
use iceoryx2_bb_posix::file_descriptor_set::SynchronousMultiplexing;
use iceoryx2_bb_posix::testing::generate_file_path;
use iceoryx2_bb_posix::unix_datagram_socket::{
    UnixDatagramReceiver, UnixDatagramReceiverBuilder,
};
use iceoryx2_cal::reactor::{
    Reactor, ReactorAttachError, ReactorBuilder, ReactorCreateError, ReactorWaitError,
};
use iceoryx2_cal::shm_allocator::bump_allocator::BumpAllocator;
use iceoryx2_cal::shm_allocator::pool_allocator::PoolAllocator;
use iceoryx2_cal::*;

const REACTOR_CAPACITY: usize = 4;

type InnerReactor = reactor::recommended::Local;
type InnerReactorBuilder = <InnerReactor as Reactor>::Builder;

/// Behaves exactly like the recommended reactor of the platform but with a capacity of
/// [`REACTOR_CAPACITY`].
#[derive(Debug)]
struct CapacityLimitedReactor {
    inner: InnerReactor,
}

struct CapacityLimitedReactorBuilder {
    inner: InnerReactorBuilder,
}

impl ReactorBuilder<CapacityLimitedReactor> for CapacityLimitedReactorBuilder {
    fn new() -> Self {
        Self {
            inner: <InnerReactorBuilder as ReactorBuilder<InnerReactor>>::new(),
        }
    }

    fn create(self) -> Result<CapacityLimitedReactor, ReactorCreateError> {
        Ok(CapacityLimitedReactor {
            inner: <InnerReactorBuilder as ReactorBuilder<InnerReactor>>::create(self.inner)?,
        })
    }
}

impl Reactor for CapacityLimitedReactor {
    type Guard<'reactor, 'attachment> = <InnerReactor as Reactor>::Guard<'reactor, 'attachment>;
    type Builder = CapacityLimitedReactorBuilder;

    fn capacity(&self) -> usize {
        REACTOR_CAPACITY
    }

    fn len(&self) -> usize {
        Reactor::len(&self.inner)
    }

    fn is_empty(&self) -> bool {
        Reactor::is_empty(&self.inner)
    }

    fn attach<'reactor, 'attachment, F: SynchronousMultiplexing + Debug + ?Sized>(
        &'reactor self,
        value: &'attachment F,
    ) -> Result<Self::Guard<'reactor, 'attachment>, ReactorAttachError> {
        if Reactor::len(self) >= Reactor::capacity(self) {
            return Err(ReactorAttachError::CapacityExceeded);
        }

        Reactor::attach(&self.inner, value)
    }

    fn try_wait<F: FnMut(&FileDescriptor)>(&self, fn_call: F) -> Result<usize, ReactorWaitError> {
        Reactor::try_wait(&self.inner, fn_call)
    }

    fn timed_wait<F: FnMut(&FileDescriptor)>(
        &self,
        fn_call: F,
        timeout: Duration,
    ) -> Result<usize, ReactorWaitError> {
        Reactor::timed_wait(&self.inner, fn_call, timeout)
    }

    fn blocking_wait<F: FnMut(&FileDescriptor)>(
        &self,
        fn_call: F,
    ) -> Result<usize, ReactorWaitError> {
        Reactor::blocking_wait(&self.inner, fn_call)
    }
}

/// Identical to `iceoryx2::service::local::Service` except for the reactor.
#[derive(Debug, Clone)]
struct ServiceWithSmallReactor {}

impl iceoryx2::service::Service for ServiceWithSmallReactor {
    type StaticStorage = static_storage::recommended::Local;
    type ConfigSerializer = serialize::recommended::Recommended;
    type PersistentDynamicStorage<T: Debug + Send + Sync + ZeroCopySend + 'static> =
        dynamic_storage::recommended::PersistentLocal<T>;
    type DynamicStorage<T: Debug + Send + Sync + ZeroCopySend + 'static> =
        dynamic_storage::recommended::Local<T>;
    type ServiceNameHasher = hash::recommended::Recommended;
    type SharedMemory = shared_memory::recommended::Local<PoolAllocator>;
    type ResizableSharedMemory = resizable_shared_memory::recommended::Local<PoolAllocator>;
    type Connection = zero_copy_connection::recommended::Local;
    type Event = event::recommended::Local;
    type Monitoring = monitoring::recommended::Local;
    type Reactor = CapacityLimitedReactor;
    type ArcThreadSafetyPolicy<T: Send + Debug + Abandonable> =
        arc_sync_policy::single_threaded::SingleThreaded<T>;
    type BlackboardMgmt<KeyType: Send + Sync + Debug + ZeroCopySend + 'static> =
        dynamic_storage::recommended::Local<KeyType>;
    type BlackboardPayload = shared_memory::recommended::Local<BumpAllocator>;
}

impl iceoryx2::service::internal::ServiceInternal<ServiceWithSmallReactor>
    for ServiceWithSmallReactor
{
}

fn create_sockets(number: usize) -> Vec<UnixDatagramReceiver> {
    (0..number)
        .map(|_| {
            UnixDatagramReceiverBuilder::new(&generate_file_path())
                .create()
                .unwrap()
        })
        .collect()
}

#[test]
fn attach_notification_beyond_reactor_capacity_fails_with_insufficient_capacity() {
    let sut = WaitSetBuilder::new()
        .create::<ServiceWithSmallReactor>()
        .unwrap();
    assert_eq!(sut.capacity(), REACTOR_CAPACITY);

    let sockets = create_sockets(REACTOR_CAPACITY + 1);
    let mut guards = vec![];
    for socket in sockets.iter().take(REACTOR_CAPACITY) {
        guards.push(sut.attach_notification(socket).unwrap());
    }
    assert_eq!(sut.len(), sut.capacity());

    // a brand new object that was never attached, AlreadyAttached would be a lie
    let result = sut.attach_notification(&sockets[REACTOR_CAPACITY]);

    assert_eq!(
        result.err(),
        Some(WaitSetAttachmentError::InsufficientCapacity)
    );
    assert_eq!(sut.len(), REACTOR_CAPACITY);
}

#[test]
fn attach_deadline_beyond_reactor_capacity_fails_with_insufficient_capacity() {
    let sut = WaitSetBuilder::new()
        .create::<ServiceWithSmallReactor>()
        .unwrap();

    let sockets = create_sockets(REACTOR_CAPACITY + 1);
    let mut guards = vec![];
    for socket in sockets.iter().take(REACTOR_CAPACITY) {
        guards.push(
            sut.attach_deadline(socket, Duration::from_secs(1000))
                .unwrap(),
        );
    }

    let result = sut.attach_deadline(&sockets[REACTOR_CAPACITY], Duration::from_secs(1000));

    assert_eq!(
        result.err(),
        Some(WaitSetAttachmentError::InsufficientCapacity)
    );
    assert_eq!(sut.len(), REACTOR_CAPACITY);
}

// control: the interval attachment does not use the reactor, here the capacity check of the
// WaitSet itself is active and has always reported the documented error
#[test]
fn attach_interval_beyond_capacity_fails_with_insufficient_capacity() {
    let sut = WaitSetBuilder::new()
        .create::<ServiceWithSmallReactor>()
        .unwrap();

    let mut guards = vec![];
    for _ in 0..REACTOR_CAPACITY {
        guards.push(sut.attach_interval(Duration::from_secs(1000)).unwrap());
    }

    let result = sut.attach_interval(Duration::from_secs(1000));

    assert_eq!(
        result.err(),
        Some(WaitSetAttachmentError::InsufficientCapacity)
    );
}
