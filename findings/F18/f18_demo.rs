// F18 triage demo: zero QoS settings, sized vs slice payload services.
use iceoryx2::prelude::*;
use std::panic::{AssertUnwindSafe, catch_unwind};
use std::sync::atomic::{AtomicUsize, Ordering};
use std::sync::mpsc;
use std::time::Duration;

static CNT: AtomicUsize = AtomicUsize::new(0);

fn name() -> ServiceName {
    let n = CNT.fetch_add(1, Ordering::Relaxed);
    ServiceName::new(&format!("f18_demo_{}_{}", std::process::id(), n)).unwrap()
}

static CASE: AtomicUsize = AtomicUsize::new(0);

// every case runs in its own process when F18_CASE=<n> is set (a fatal_panic aborts the process)
fn guarded<F: FnOnce() -> String + Send + 'static>(label: &str, f: F) {
    let idx = CASE.fetch_add(1, Ordering::Relaxed);
    match std::env::var("F18_CASE") {
        Ok(v) => {
            if v.parse::<usize>().unwrap() != idx {
                return;
            }
        }
        Err(_) => {
            let out = std::process::Command::new(std::env::current_exe().unwrap())
                .env("F18_CASE", idx.to_string())
                .output()
                .unwrap();
            let stdout = String::from_utf8_lossy(&out.stdout);
            if out.status.success() {
                print!("{stdout}");
            } else {
                let stderr = String::from_utf8_lossy(&out.stderr);
                let reason = stderr
                    .lines()
                    .find(|l| l.contains("panicked at"))
                    .unwrap_or("")
                    .to_string();
                let what = stderr
                    .lines()
                    .find(|l| l.starts_with("| "))
                    .unwrap_or("")
                    .to_string();
                println!("{label:<78} => PROCESS ABORTED ({}) {reason} {what}", out.status);
            }
            return;
        }
    }
    let (tx, rx) = mpsc::channel();
    std::thread::spawn(move || {
        let r = catch_unwind(AssertUnwindSafe(f));
        let _ = tx.send(match r {
            Ok(s) => s,
            Err(e) => {
                let m = e
                    .downcast_ref::<String>()
                    .cloned()
                    .or_else(|| e.downcast_ref::<&str>().map(|s| s.to_string()))
                    .unwrap_or_else(|| "<non-string panic>".into());
                format!("PANIC: {m}")
            }
        });
    });
    match rx.recv_timeout(Duration::from_secs(5)) {
        Ok(s) => println!("{label:<78} => {s}"),
        Err(_) => println!("{label:<78} => HANG (no result within 5s)"),
    }
}

macro_rules! pubsub_cfg {
    ($s:expr) => {{
        let c = $s.static_config();
        format!(
            "cfg[nodes={} pubs={} subs={} buf={} borrow={} hist={}]",
            c.max_nodes(),
            c.max_publishers(),
            c.max_subscribers(),
            c.subscriber_max_buffer_size(),
            c.subscriber_max_borrowed_samples(),
            c.history_size()
        )
    }};
}

macro_rules! pubsub_sized {
    ($setter:ident, $how:ident) => {
        guarded(
            &format!("pubsub <u64>   .{}(0).{}()", stringify!($setter), stringify!($how)),
            || {
                let node = NodeBuilder::new().create::<ipc::Service>().unwrap();
                let s = match node
                    .service_builder(&name())
                    .publish_subscribe::<u64>()
                    .$setter(0)
                    .$how()
                {
                    Ok(s) => s,
                    Err(e) => return format!("service creation refused: {e:?}"),
                };
                let mut out = pubsub_cfg!(s);
                let sub = match s.subscriber_builder().create() {
                    Ok(v) => v,
                    Err(e) => return format!("{out} subscriber refused: {e:?}"),
                };
                let p = match s.publisher_builder().create() {
                    Ok(v) => v,
                    Err(e) => return format!("{out} publisher refused: {e:?}"),
                };
                match p.send_copy(42) {
                    Ok(n) => out += &format!(" send->Ok({n})"),
                    Err(e) => return format!("{out} send failed: {e:?}"),
                }
                match sub.receive() {
                    Ok(Some(v)) => out += &format!(" recv->Some({})", *v),
                    Ok(None) => out += " recv->None (SAMPLE LOST)",
                    Err(e) => out += &format!(" recv failed: {e:?}"),
                }
                out
            },
        )
    };
}

macro_rules! pubsub_slice {
    ($setter:ident, $how:ident) => {
        guarded(
            &format!("pubsub <[u64]> .{}(0).{}()", stringify!($setter), stringify!($how)),
            || {
                let node = NodeBuilder::new().create::<ipc::Service>().unwrap();
                let s = match node
                    .service_builder(&name())
                    .publish_subscribe::<[u64]>()
                    .$setter(0)
                    .$how()
                {
                    Ok(s) => s,
                    Err(e) => return format!("service creation refused: {e:?}"),
                };
                let mut out = pubsub_cfg!(s);
                let sub = match s.subscriber_builder().create() {
                    Ok(v) => v,
                    Err(e) => return format!("{out} subscriber refused: {e:?}"),
                };
                let p = match s.publisher_builder().initial_max_slice_len(4).create() {
                    Ok(v) => v,
                    Err(e) => return format!("{out} publisher refused: {e:?}"),
                };
                let sample = match p.loan_slice(4) {
                    Ok(v) => v,
                    Err(e) => return format!("{out} loan failed: {e:?}"),
                };
                match sample.send() {
                    Ok(n) => out += &format!(" send->Ok({n})"),
                    Err(e) => return format!("{out} send failed: {e:?}"),
                }
                match sub.receive() {
                    Ok(Some(v)) => out += &format!(" recv->Some(len {})", v.payload().len()),
                    Ok(None) => out += " recv->None (SAMPLE LOST)",
                    Err(e) => out += &format!(" recv failed: {e:?}"),
                }
                out
            },
        )
    };
}

macro_rules! rr_cfg {
    ($s:expr) => {{
        let c = $s.static_config();
        format!(
            "cfg[nodes={} clients={} servers={} active={} respbuf={} borrow={} loaned={}]",
            c.max_nodes(),
            c.max_clients(),
            c.max_servers(),
            c.max_active_requests_per_client(),
            c.max_response_buffer_size(),
            c.max_borrowed_responses_per_pending_response(),
            c.max_loaned_requests()
        )
    }};
}

macro_rules! rr_sized {
    ($setter:ident, $how:ident) => {
        guarded(
            &format!("reqres <u64,u64>     .{}(0).{}()", stringify!($setter), stringify!($how)),
            || {
                let node = NodeBuilder::new().create::<ipc::Service>().unwrap();
                let s = match node
                    .service_builder(&name())
                    .request_response::<u64, u64>()
                    .$setter(0)
                    .$how()
                {
                    Ok(s) => s,
                    Err(e) => return format!("service creation refused: {e:?}"),
                };
                let mut out = rr_cfg!(s);
                let server = match s.server_builder().create() {
                    Ok(v) => v,
                    Err(e) => return format!("{out} server refused: {e:?}"),
                };
                let client = match s.client_builder().create() {
                    Ok(v) => v,
                    Err(e) => return format!("{out} client refused: {e:?}"),
                };
                let pending = match client.send_copy(1) {
                    Ok(v) => v,
                    Err(e) => return format!("{out} request send failed: {e:?}"),
                };
                out += " req sent;";
                let active = match server.receive() {
                    Ok(Some(v)) => v,
                    Ok(None) => return format!("{out} server recv->None (REQUEST LOST)"),
                    Err(e) => return format!("{out} server recv failed: {e:?}"),
                };
                match active.send_copy(2) {
                    Ok(()) => out += " resp sent;",
                    Err(e) => return format!("{out} response send failed: {e:?}"),
                }
                match pending.receive() {
                    Ok(Some(v)) => out += &format!(" resp recv->Some({})", *v),
                    Ok(None) => out += " resp recv->None (RESPONSE LOST)",
                    Err(e) => out += &format!(" resp recv failed: {e:?}"),
                }
                out
            },
        )
    };
}

macro_rules! rr_slice {
    ($setter:ident, $how:ident) => {
        guarded(
            &format!("reqres <[u64],[u64]> .{}(0).{}()", stringify!($setter), stringify!($how)),
            || {
                let node = NodeBuilder::new().create::<ipc::Service>().unwrap();
                let s = match node
                    .service_builder(&name())
                    .request_response::<[u64], [u64]>()
                    .$setter(0)
                    .$how()
                {
                    Ok(s) => s,
                    Err(e) => return format!("service creation refused: {e:?}"),
                };
                let mut out = rr_cfg!(s);
                let server = match s.server_builder().initial_max_slice_len(4).create() {
                    Ok(v) => v,
                    Err(e) => return format!("{out} server refused: {e:?}"),
                };
                let client = match s.client_builder().initial_max_slice_len(4).create() {
                    Ok(v) => v,
                    Err(e) => return format!("{out} client refused: {e:?}"),
                };
                let req = match client.loan_slice(4) {
                    Ok(v) => v,
                    Err(e) => return format!("{out} request loan failed: {e:?}"),
                };
                let pending = match req.send() {
                    Ok(v) => v,
                    Err(e) => return format!("{out} request send failed: {e:?}"),
                };
                out += " req sent;";
                let active = match server.receive() {
                    Ok(Some(v)) => v,
                    Ok(None) => return format!("{out} server recv->None (REQUEST LOST)"),
                    Err(e) => return format!("{out} server recv failed: {e:?}"),
                };
                let resp = match active.loan_slice(4) {
                    Ok(v) => v,
                    Err(e) => return format!("{out} response loan failed: {e:?}"),
                };
                match resp.send() {
                    Ok(()) => out += " resp sent;",
                    Err(e) => return format!("{out} response send failed: {e:?}"),
                }
                match pending.receive() {
                    Ok(Some(v)) => out += &format!(" resp recv->Some(len {})", v.payload().len()),
                    Ok(None) => out += " resp recv->None (RESPONSE LOST)",
                    Err(e) => out += &format!(" resp recv failed: {e:?}"),
                }
                out
            },
        )
    };
}

macro_rules! for_pubsub {
    ($($setter:ident),*) => {
        $(
            pubsub_sized!($setter, create);
            pubsub_slice!($setter, create);
            pubsub_sized!($setter, open_or_create);
            pubsub_slice!($setter, open_or_create);
        )*
    };
}

macro_rules! for_rr {
    ($($setter:ident),*) => {
        $(
            rr_sized!($setter, create);
            rr_slice!($setter, create);
            rr_sized!($setter, open_or_create);
            rr_slice!($setter, open_or_create);
        )*
    };
}

fn main() {
    set_log_level(LogLevel::Error);
    for_pubsub!(
        subscriber_max_buffer_size,
        subscriber_max_borrowed_samples,
        max_subscribers,
        max_publishers,
        max_nodes
    );
    for_rr!(
        max_response_buffer_size,
        max_active_requests_per_client,
        max_clients,
        max_servers,
        max_nodes,
        max_borrowed_responses_per_pending_response,
        max_loaned_requests
    );
}
