// probe (not a seeded defect): stale ActiveRequest of a gone client A vs. new client B that
// takes over the connection slot of A in the server

use iceoryx2::prelude::*;
use iceoryx2::testing::*;

fn probe<S: Service>() {
    let config = generate_isolated_config();
    let node = NodeBuilder::new().config(&config).create::<S>().unwrap();
    let service = node
        .service_builder(&generate_service_name())
        .request_response::<u64, u64>()
        .max_clients(1)
        .max_servers(1)
        .max_active_requests_per_client(2)
        .create()
        .unwrap();
    let server = service.server_builder().create().unwrap();

    let client_a = service.client_builder().create().unwrap();
    let pending_a = client_a.send_copy(1).unwrap();
    let active_request_a = server.receive().unwrap().unwrap();
    println!("A: {:?} origin {:?}", active_request_a, active_request_a.origin());
    assert!(active_request_a.is_connected());
    drop(pending_a);
    drop(client_a);
    println!(
        "after drop of client A: AR_a.is_connected() = {}",
        active_request_a.is_connected()
    );

    let client_b = service.client_builder().create().unwrap();
    let pending_b = client_b.send_copy(2).unwrap();
    println!(
        "after request of client B: AR_a.is_connected() = {}",
        active_request_a.is_connected()
    );
    let r = active_request_a.send_copy(111);
    println!("AR_a.send_copy(111) = {r:?}");
    println!(
        "after send: AR_a.is_connected() = {}",
        active_request_a.is_connected()
    );

    let got = pending_b.receive().unwrap().map(|r| *r);
    println!("pending_b.receive() = {got:?}");
    drop(active_request_a);
    println!("after drop AR_a: pending_b.is_connected() = {}", pending_b.is_connected());
    let active_request_b = server.receive().unwrap().map(|r| *r);
    println!("server.receive() = {active_request_b:?}");
    assert_eq!(got, None, "client B received the answer for the request of client A");
}

#[test]
fn c11x_probe_ipc() {
    probe::<ipc::Service>();
}
