// side experiment (unmodified source): does ProcessMonitor::state(), called in the process that
// holds the ProcessCleaner of a node that died in ANOTHER process, release the owner lock?
extern crate iceoryx2_bb_loggers;

use std::io::{BufRead, BufReader};
use std::process::{Child, Command, Stdio};

use iceoryx2_bb_posix::process_state::*;
use iceoryx2_bb_posix::testing::generate_file_path;
use iceoryx2_log::{LogLevel, set_log_level};

fn spawn(role: &str, path: &FilePath) -> (Child, String) {
    let mut child = Command::new(std::env::current_exe().unwrap())
        .arg(role)
        .arg(path.to_string())
        .stdin(Stdio::piped())
        .stdout(Stdio::piped())
        .spawn()
        .unwrap();
    let mut first_line = String::new();
    BufReader::new(child.stdout.as_mut().unwrap())
        .read_line(&mut first_line)
        .unwrap();
    (child, first_line.trim().to_string())
}

fn main() {
    set_log_level(LogLevel::Fatal);
    let args: Vec<String> = std::env::args().collect();
    if args.len() == 3 {
        let path = FilePath::new(args[2].as_bytes()).unwrap();
        match args[1].as_str() {
            "victim" => {
                let _guard = ProcessGuardBuilder::new().create(&path).unwrap();
                println!("ready");
                loop {
                    std::thread::sleep(std::time::Duration::from_secs(3600));
                }
            }
            "probe" => {
                println!("{:?}", ProcessMonitor::new(&path).unwrap().state());
                std::process::exit(0);
            }
            "cleaner" => {
                match ProcessCleaner::new(&path) {
                    Ok(c) => {
                        println!("ACQUIRED");
                        use iceoryx2_bb_elementary_traits::testing::abandonable::Abandonable;
                        c.abandon();
                    }
                    Err(e) => println!("{e:?}"),
                }
                std::process::exit(0);
            }
            _ => std::process::exit(3),
        }
    }

    let path = generate_file_path();
    let (mut victim, _) = spawn("victim", &path);
    victim.kill().unwrap();
    victim.wait().unwrap();

    let cleaner = ProcessCleaner::new(&path).unwrap();
    println!("cleaner acquired in main process");
    println!("other process sees      : {}", spawn("probe", &path).1);
    println!("other process cleaner   : {}", spawn("cleaner", &path).1);
    println!(
        "same process state()    : {:?}",
        ProcessMonitor::new(&path).unwrap().state()
    );
    println!("other process sees      : {}", spawn("probe", &path).1);
    println!("other process cleaner   : {}", spawn("cleaner", &path).1);
    drop(cleaner);
}
