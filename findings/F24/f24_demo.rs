// F24 demonstration: run as an example of iceoryx2-bb-container
//   cp f24_demo.rs iceoryx2-bb/container/examples/f24_demo.rs
//   cargo run --offline -p iceoryx2-bb-container --example f24_demo
use iceoryx2_bb_container::string::*;

fn main() {
    let mut failures = 0;

    // (1) remove(len) must be None (there is no element at index len), the string is untouched
    let mut s = StaticString::<8>::from_bytes(b"abc").unwrap();
    let r = s.remove(3);
    println!("\"abc\".remove(3) = {:?}, len afterwards = {}", r, s.len());
    if r.is_some() {
        println!("  DEFECT: an element was reported as removed although idx == len");
        failures += 1;
    }

    // (2) remove_range(len, 0) / strip_suffix(b"") on a FULL string: nothing to remove, must succeed
    let full = std::panic::catch_unwind(|| {
        let mut s = StaticString::<3>::from_bytes(b"abc").unwrap();
        let ok = s.remove_range(3, 0);
        (ok, s.len())
    });
    println!("full \"abc\".remove_range(3, 0) = {:?}", full.as_ref().ok());
    if full.is_err() {
        println!("  DEFECT: panicked (terminator written behind the data array)");
        failures += 1;
    }
    let full = std::panic::catch_unwind(|| {
        let mut s = StaticString::<3>::from_bytes(b"abc").unwrap();
        s.strip_suffix(b"")
    });
    println!("full \"abc\".strip_suffix(\"\") = {:?}", full.as_ref().ok());
    if full.is_err() {
        println!("  DEFECT: panicked");
        failures += 1;
    }
    // (3) remove(len) on a FULL string
    let full = std::panic::catch_unwind(|| {
        let mut s = StaticString::<3>::from_bytes(b"abc").unwrap();
        s.remove(3)
    });
    println!("full \"abc\".remove(3) = {:?}", full.as_ref().ok());
    if full.is_err() {
        println!("  DEFECT: panicked (read behind the data array)");
        failures += 1;
    }
    std::process::exit(if failures == 0 { 0 } else { 1 });
}
