// Copyright (c) 2026 Contributors to the Eclipse Foundation
//
// See the NOTICE file(s) distributed with this work for additional
// information regarding copyright ownership.
//
// This program and the accompanying materials are made available under the
// terms of the Apache Software License 2.0 which is available at
// https://www.apache.org/licenses/LICENSE-2.0, or the MIT license
// which is available at https://opensource.org/licenses/MIT.
//
// SPDX-License-Identifier: Apache-2.0 OR MIT

//! Regression test: `SemanticString::rfind` must return the position of the
//! LAST occurrence, identical to `StaticString::rfind` on the same content.

// provides the default logger symbol required at link time
extern crate iceoryx2_bb_loggers;

use iceoryx2_bb_container::semantic_string::SemanticString;
use iceoryx2_bb_container::string::{StaticString, String};
use iceoryx2_bb_system_types::file_name::FileName;
use iceoryx2_bb_system_types::file_path::FilePath;

#[test]
fn semantic_string_rfind_returns_last_occurrence_of_single_byte() {
    let sut = FileName::new(b"aXbXc").unwrap();

    assert_eq!(sut.find(b"X"), Some(1));
    assert_eq!(sut.rfind(b"X"), Some(3));
}

#[test]
fn semantic_string_rfind_returns_last_occurrence_of_byte_range() {
    let sut = FilePath::new(b"some/dir/some/file").unwrap();

    assert_eq!(sut.find(b"some"), Some(0));
    assert_eq!(sut.rfind(b"some"), Some(9));
}

#[test]
fn semantic_string_rfind_is_consistent_with_static_string_rfind() {
    let content = b"aXbXc";
    let reference = StaticString::<32>::from_bytes(content).unwrap();
    let sut = FileName::new(content).unwrap();

    assert_eq!(sut.rfind(b"X"), reference.rfind(b"X"));
    assert_eq!(sut.rfind(b"Q"), None);
}
