// Demonstration / regression test for finding F13.
//
// Copy to: iceoryx2/tests/f13_demo.rs
// Run:     cargo test --offline -p iceoryx2 --test f13_demo
//
// A REAL child process (re-execution of this test binary) opens the event
// service of the parent and creates a listener. A logger that is installed in
// the child only (test hook, nothing is added to the product) kills the child
// with SIGABRT at the instant a specific trace message is emitted, i.e. the
// process dies in the middle of `Listener::new()`.
//
// The surviving parent then has to detect the dead node, has to be able to
// remove all of its stale resources and afterwards no file / shared memory
// object that was owned by the dead process is allowed to remain.

use std::collections::BTreeSet;
use std::os::unix::process::ExitStatusExt;
use std::path::Path;
use std::sync::atomic::{AtomicBool, Ordering};

use iceoryx2::node::NodeState;
use iceoryx2::prelude::*;
use iceoryx2::testing::generate_isolated_config;
use iceoryx2_bb_container::semantic_string::SemanticString;
use iceoryx2_bb_system_types::file_name::FileName;

const ENV_PREFIX: &str = "F13_CHILD_PREFIX";
const ENV_ORIGIN: &str = "F13_CHILD_CRASH_ORIGIN";
const ENV_MESSAGE: &str = "F13_CHILD_CRASH_MESSAGE";
const ENV_MODE: &str = "F13_CHILD_MODE";
const SERVICE_NAME: &str = "f13_demo_service";

type S = ipc::Service;

fn config_with_prefix(prefix: Option<&str>) -> Config {
    let mut config = generate_isolated_config();
    if let Some(prefix) = prefix {
        config.global.prefix = FileName::new(prefix.as_bytes()).unwrap();
    }
    config.global.node.cleanup_dead_nodes_on_creation = false;
    config.global.node.cleanup_dead_nodes_on_destruction = false;
    config.global.service.cleanup_dead_nodes_on_open = false;
    config
}

// ---------------------------------------------------------------------------
// child side
// ---------------------------------------------------------------------------

static ARMED: AtomicBool = AtomicBool::new(false);

struct CrashingLogger {
    origin: String,
    message: String,
}

impl iceoryx2_log::Log for CrashingLogger {
    fn log(
        &self,
        _log_level: LogLevel,
        origin: core::fmt::Arguments,
        formatted_message: core::fmt::Arguments,
    ) {
        if !ARMED.load(Ordering::Relaxed) {
            return;
        }

        let origin = origin.to_string();
        let message = formatted_message.to_string();
        if std::env::var("F13_CHILD_VERBOSE").is_ok() {
            eprintln!("[child] {origin} :: {message}");
        }
        if origin.contains(&self.origin) && message.contains(&self.message) {
            eprintln!("[child] simulated kill at: {origin} :: {message}");
            // no destructors, no atexit handlers - the process is gone
            std::process::abort();
        }
    }
}

/// Is a no-op when it is started as part of the normal test run. Only when the
/// parent test starts the test binary again with the environment variables set
/// it acts as the process that is going to die.
#[test]
fn f13_child_process() {
    let Ok(prefix) = std::env::var(ENV_PREFIX) else {
        return;
    };
    let logger: &'static CrashingLogger = Box::leak(Box::new(CrashingLogger {
        origin: std::env::var(ENV_ORIGIN).unwrap(),
        message: std::env::var(ENV_MESSAGE).unwrap(),
    }));
    assert!(set_logger(logger));
    set_log_level(LogLevel::Trace);
    let mode = std::env::var(ENV_MODE).unwrap();

    let config = config_with_prefix(Some(&prefix));
    let node = NodeBuilder::new().config(&config).create::<S>().unwrap();
    let service = node
        .service_builder(&ServiceName::new(SERVICE_NAME).unwrap())
        .event()
        .open()
        .unwrap();

    if mode == "in_create" {
        ARMED.store(true, Ordering::Relaxed);
    }
    let listener = service.listener_builder().create().unwrap();

    if mode == "after_create" {
        // Listener::new() returned, the listener is registered in the dynamic config
        eprintln!("[child] simulated kill right after Listener::new() returned");
        std::process::abort();
    }

    // must never be reached, the parent verifies that the child was killed by a signal
    ARMED.store(false, Ordering::Relaxed);
    drop(listener);
    drop(service);
    drop(node);
}

// ---------------------------------------------------------------------------
// parent side
// ---------------------------------------------------------------------------

fn collect(dir: &Path, prefix: &str, result: &mut BTreeSet<String>) {
    let Ok(entries) = std::fs::read_dir(dir) else {
        return;
    };
    for entry in entries.flatten() {
        let path = entry.path();
        if path.is_dir() {
            collect(&path, prefix, result);
        }
        if path.to_string_lossy().contains(prefix) {
            result.insert(path.to_string_lossy().to_string());
        }
    }
}

/// everything in the isolated root path and in the shared memory directory that carries the
/// unique prefix of this test
fn resources(config: &Config, prefix: &str) -> BTreeSet<String> {
    let mut result = BTreeSet::new();
    collect(
        Path::new(&config.global.root_path().to_string()),
        prefix,
        &mut result,
    );
    collect(Path::new("/dev/shm"), prefix, &mut result);
    result
}

fn run(mode: &str, crash_origin: &str, crash_message: &str) {
    // the dead node cleanup can be performed by only one thread of a process at a time
    static SERIALIZE: std::sync::Mutex<()> = std::sync::Mutex::new(());
    let _guard = SERIALIZE.lock().unwrap_or_else(|e| e.into_inner());

    let config = config_with_prefix(None);
    let prefix = config.global.prefix.to_string();

    let node = NodeBuilder::new().config(&config).create::<S>().unwrap();
    let service = node
        .service_builder(&ServiceName::new(SERVICE_NAME).unwrap())
        .event()
        .max_listeners(2)
        .max_notifiers(2)
        .max_nodes(2)
        .create()
        .unwrap();
    let listener = service.listener_builder().create().unwrap();
    let notifier = service.notifier_builder().create().unwrap();

    assert!(!resources(&config, &prefix).is_empty());

    let status = std::process::Command::new(std::env::current_exe().unwrap())
        .args([
            "f13_child_process",
            "--exact",
            "--nocapture",
            "--test-threads",
            "1",
        ])
        .env(ENV_PREFIX, &prefix)
        .env(ENV_ORIGIN, crash_origin)
        .env(ENV_MESSAGE, crash_message)
        .env(ENV_MODE, mode)
        .status()
        .unwrap();
    assert_eq!(
        status.signal(),
        Some(6),
        "the child process must have been killed at the crash point ({status:?})"
    );

    // the dead node is reported as dead and its stale resources can be removed
    let mut dead_nodes = vec![];
    let mut alive_nodes = 0;
    Node::<S>::list(&config, |state| {
        match state {
            NodeState::Dead(view) => dead_nodes.push(view),
            NodeState::Alive(_) => alive_nodes += 1,
            state => panic!("unexpected node state {state:?}"),
        }
        CallbackProgression::Continue
    })
    .unwrap();
    assert_eq!(alive_nodes, 1);
    assert_eq!(dead_nodes.len(), 1);
    for dead_node in dead_nodes {
        assert_eq!(dead_node.try_remove_stale_resources(), Ok(()));
    }

    let mut number_of_nodes = 0;
    Node::<S>::list(&config, |_| {
        number_of_nodes += 1;
        CallbackProgression::Continue
    })
    .unwrap();
    assert_eq!(number_of_nodes, 1);

    // the shared service is fully usable by the survivor
    assert_eq!(service.dynamic_config().number_of_listeners(), 1);
    let mut nodes_of_service = 0;
    service
        .nodes(|_| {
            nodes_of_service += 1;
            CallbackProgression::Continue
        })
        .unwrap();
    assert_eq!(nodes_of_service, 1);

    notifier
        .notify_with_custom_event_id(EventId::new(5))
        .unwrap();
    let mut received = vec![];
    listener
        .try_wait(|activation| received.push(activation.id.as_value()))
        .unwrap();
    assert_eq!(received, vec![5]);

    // nothing that was owned solely by the dead node remains: after the survivor has shut down
    // in an orderly fashion and the domain-wide management segment (persists by design) is
    // removed, nothing with the unique prefix of this test is allowed to exist
    drop(notifier);
    drop(listener);
    drop(service);
    drop(node);
    unsafe { iceoryx2::testing::remove_global_mgmt_segment::<S>(&config).unwrap() };

    let remaining = resources(&config, &prefix);
    for leaked in &remaining {
        // do not pollute the machine when the demonstration fails
        let _ = std::fs::remove_file(leaked);
    }
    assert!(
        remaining.is_empty(),
        "stale resources of the dead node remain after a successful cleanup: {remaining:#?}"
    );
}

// Sequence of trace messages emitted by the child inside of `Listener::new()`:
//   1. File{..port_tag}            "set permission to: rw-------"
//   2. FileBuilder{..port_tag}     "created"
//   3. File{..port_tag}            "set permission to: r--------"   <- port tag complete
//   4. FileDescriptor              "truncate to: .."
//   5. MemoryMapping               "mapped"
//   6. SharedMemory{..event_mgmt}  "created"
//   7. UnixDatagramReceiver{..event} "created and listening"        <- socket file exists
//   8. SharedMemory{..event_mgmt}  "set permission to: rw-------"   <- event concept complete
//   -- no further message, `add_listener_id()` follows --

/// control: port tag exists, event concept not yet created
#[test]
fn f13_control_process_dies_after_port_tag_before_event_concept_is_created() {
    run("in_create", ".port_tag", "set permission to: r--------");
}

/// control: listener is completely created and registered in the service
#[test]
fn f13_control_process_dies_right_after_listener_is_registered() {
    run("after_create", "NO_SUCH_ORIGIN", "NO_SUCH_MESSAGE");
}

/// F13: event concept completely created, listener not yet registered in the dynamic config
#[test]
fn f13_process_dies_after_event_concept_is_created_before_listener_is_registered() {
    run("in_create", ".event_mgmt", "set permission to: rw-------");
}

/// F13: socket of the event concept is created, management segment not yet finalized
#[test]
fn f13_process_dies_while_event_concept_is_created() {
    run("in_create", "UnixDatagramReceiver", "created and listening");
}
