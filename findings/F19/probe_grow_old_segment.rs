extern crate iceoryx2_bb_loggers;
use core::alloc::Layout;
use iceoryx2_bb_elementary::allocation_strategy::AllocationStrategy;
use iceoryx2_bb_elementary_traits::allocator::{Allocate, ContentPlacement, Grow};
use iceoryx2_bb_posix::testing::generate_file_path;
use iceoryx2_cal::named_concept::*;
use iceoryx2_cal::resizable_shared_memory::dynamic::DynamicMemory;
use iceoryx2_cal::resizable_shared_memory::*;
use iceoryx2_cal::shm_allocator::pool_allocator::PoolAllocator;
use iceoryx2_cal::testing::*;

type Shm = iceoryx2_cal::shared_memory::posix::Memory<PoolAllocator>;
type Sut = DynamicMemory<PoolAllocator, Shm>;

#[test]
fn probe_grow_of_chunk_in_old_segment() {
    let name = generate_file_path().file_name();
    let config = generate_isolated_config::<Sut>();
    let small = Layout::from_size_align(8, 1).unwrap();
    let mid = Layout::from_size_align(16, 1).unwrap();
    let large = Layout::from_size_align(32, 1).unwrap();
    let sut = <Sut as ResizableSharedMemory<PoolAllocator, Shm>>::MemoryBuilder::new(&name)
        .config(&config)
        .allocation_strategy(AllocationStrategy::PowerOfTwo)
        .max_chunk_layout_hint(small)
        .max_number_of_chunks_hint(4)
        .create()
        .unwrap();
    let a = sut.allocate(small).unwrap();
    unsafe { core::ptr::write_bytes(a.data_ptr, 0xAA, 8) };
    let b = sut.allocate(large).unwrap();
    unsafe { core::ptr::write_bytes(b.data_ptr, 0xBB, 32) };
    eprintln!("a = {:?}, b = {:?}", a, b);
    let g = unsafe { sut.grow(a, small, mid, ContentPlacement::Front) }.unwrap();
    eprintln!("g = {:?}", g);
    assert_ne!(g.data_ptr, b.data_ptr, "grown chunk aliases the live chunk b");
    assert_eq!(unsafe { *g.data_ptr }, 0xAA);
}
