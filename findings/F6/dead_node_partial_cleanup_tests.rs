// Copyright (c) 2026 Contributors to the Eclipse Foundation
//
// See the NOTICE file(s) distributed with this work for additional
// information regarding copyright ownership.
//
// This program and the accompanying materials are made available under the
// terms of the Apache Software License 2.0 which is available at
// https://www.apache.org/licenses/LICENSE-2.0, or the MIT license
// which is available at https://opensource.org/licenses/MIT.
//
// SPDX-License-Identifier: Apache-2.0 OR MIT

//! Regression test: when the cleanup of a dead node fails half way
//! (`DeadNodeView::try_remove_stale_resources()` returns an error) the dead node must
//! still be listed as dead node so that the cleanup can be repeated later. Otherwise
//! all remaining stale resources (service tags, port tags, entries in the dynamic
//! service config, the service itself) are leaked forever.

extern crate iceoryx2_bb_loggers;

use std::os::unix::fs::PermissionsExt;
use std::path::PathBuf;

use iceoryx2::identifiers::UniqueNodeId;
use iceoryx2::node::{NodeCleanupFailure, NodeState, NodeView};
use iceoryx2::prelude::*;
use iceoryx2::service::service_hash::ServiceHash;
use iceoryx2::testing::*;
use iceoryx2_bb_elementary_traits::testing::abandonable::Abandonable;

type S = ipc::Service;

fn static_config_file_path(config: &Config, service_hash: &ServiceHash) -> PathBuf {
    let mut path = PathBuf::from(config.global.root_path().to_string());
    path.push(config.global.service.directory.to_string());
    path.push(format!(
        "{}{}{}",
        config.global.prefix,
        service_hash.as_str(),
        config.global.service.static_config_storage_suffix
    ));
    path
}

/// Replaces the content of a (read-only) file but keeps the permissions.
fn replace_file_content(path: &PathBuf, content: &[u8]) {
    let permissions = std::fs::metadata(path).unwrap().permissions().mode();
    std::fs::remove_file(path).unwrap();
    std::fs::write(path, content).unwrap();
    std::fs::set_permissions(path, std::fs::Permissions::from_mode(permissions)).unwrap();
}

fn dead_nodes(config: &Config) -> Vec<UniqueNodeId> {
    let mut ids = vec![];
    Node::<S>::list(config, |state| {
        if let NodeState::Dead(view) = state {
            ids.push(*view.id());
        }
        CallbackProgression::Continue
    })
    .unwrap();
    ids
}

fn try_cleanup_dead_node(
    config: &Config,
    node_id: &UniqueNodeId,
) -> Option<Result<(), NodeCleanupFailure>> {
    match get_node_state::<S>(node_id, config).unwrap() {
        Some(NodeState::Dead(view)) => Some(view.try_remove_stale_resources()),
        _ => None,
    }
}

#[test]
fn dead_node_is_still_listed_as_dead_when_removing_it_from_a_service_failed() {
    let mut config = generate_isolated_config();
    config.global.node.cleanup_dead_nodes_on_creation = false;
    config.global.node.cleanup_dead_nodes_on_destruction = false;
    config.global.service.cleanup_dead_nodes_on_open = false;

    let service_name = generate_service_name();
    let service_hash = generate_service_hash::<S>(&service_name, MessagingPattern::Event);

    let bad_node = NodeBuilder::new().config(&config).create::<S>().unwrap();
    let bad_node_id = *bad_node.id();
    let bad_service = bad_node
        .service_builder(&service_name)
        .event()
        .create()
        .unwrap();

    // simulate a crash of the process that owns the node
    bad_service.abandon();
    bad_node.abandon();

    assert_eq!(dead_nodes(&config), vec![bad_node_id]);
    assert!(does_service_tag_exist::<S>(&service_hash, &config, &bad_node_id).unwrap());

    // corrupt the static config of the service so that the dead node cannot be removed
    // from the service
    let static_config_file = static_config_file_path(&config, &service_hash);
    let original_static_config = std::fs::read(&static_config_file).unwrap();
    replace_file_content(&static_config_file, b"this is :: not a [ valid static = config");

    let result = try_cleanup_dead_node(&config, &bad_node_id);
    assert_eq!(result, Some(Err(NodeCleanupFailure::InternalError)));

    // the stale resources of the dead node are still there ...
    assert!(does_service_tag_exist::<S>(&service_hash, &config, &bad_node_id).unwrap());
    assert!(static_config_file.exists());

    // ... therefore the node must be still listed as dead node, otherwise the stale
    // resources can never be cleaned up
    println!(
        "dead nodes after the failed cleanup: {:?}, state of the node: {:?}",
        dead_nodes(&config),
        get_node_state::<S>(&bad_node_id, &config).unwrap()
    );
    assert_eq!(dead_nodes(&config), vec![bad_node_id]);

    // when the cause of the failure is gone, the cleanup can be repeated and succeeds
    replace_file_content(&static_config_file, &original_static_config);

    let result = try_cleanup_dead_node(&config, &bad_node_id);
    assert_eq!(result, Some(Ok(())));

    assert_eq!(dead_nodes(&config), vec![]);
    assert!(get_node_state::<S>(&bad_node_id, &config)
        .unwrap()
        .is_none());
    assert!(!does_service_tag_exist::<S>(&service_hash, &config, &bad_node_id).unwrap());
    assert!(!static_config_file.exists());
    assert!(
        !S::does_exist(&service_name, &config, MessagingPattern::Event).unwrap(),
        "the service of the dead node shall be removed"
    );

    unsafe { remove_global_mgmt_segment::<S>(&config).unwrap() };
}
