// Copyright (c) 2026 Contributors to the Eclipse Foundation
//
// See the NOTICE file(s) distributed with this work for additional
// information regarding copyright ownership.
//
// This program and the accompanying materials are made available under the
// terms of the Apache Software License 2.0 which is available at
// https://www.apache.org/licenses/LICENSE-2.0, or the MIT license
// which is available at https://opensource.org/licenses/MIT.
//
// SPDX-License-Identifier: Apache-2.0 OR MIT

//! Verifies that every bucket handed out by the pool allocator satisfies the
//! bucket alignment even when the size of the bucket layout is not a multiple
//! of its alignment, e.g. `Layout::from_size_align(24, 16)`.

use alloc::vec;
use alloc::vec::Vec;

use iceoryx2_bb_elementary_traits::allocator::*;
use iceoryx2_bb_memory::{bump_allocator::BumpAllocator, pool_allocator::*};
use iceoryx2_bb_testing::assert_that;
use iceoryx2_bb_testing_macros::test;

const MEMORY_SIZE: usize = 4096;
const MAX_NUMBER_OF_BUCKETS: usize = 1024;

#[repr(C, align(256))]
struct AlignedMemory {
    data: [u8; MEMORY_SIZE],
}

impl AlignedMemory {
    fn new() -> Self {
        Self {
            data: [0xff; MEMORY_SIZE],
        }
    }

    fn start(&mut self) -> NonNull<u8> {
        NonNull::new(self.data.as_mut_ptr()).unwrap()
    }
}

/// Acquires all buckets with the bucket layout and verifies for every bucket that it
///  * is aligned to the bucket alignment
///  * is located completely inside the managed memory
///  * does not overlap with any other bucket
///  * can be released again (the pointer maps back to the bucket index)
fn acquire_all_buckets_and_verify<A>(
    sut: &A,
    number_of_buckets: usize,
    bucket_layout: Layout,
    memory_start: usize,
) where
    A: Allocate<NonNull<u8>> + Deallocate<NonNull<u8>>,
{
    let memory_end = memory_start + MEMORY_SIZE;
    assert_that!(number_of_buckets, ge 2);

    let mut buckets = Vec::new();
    for _ in 0..number_of_buckets {
        let ptr = sut.allocate(bucket_layout);
        assert_that!(ptr, is_ok);
        buckets.push(ptr.unwrap());
    }
    assert_that!(sut.allocate(bucket_layout), is_err);

    let mut addresses: Vec<usize> = buckets.iter().map(|p| p.as_ptr() as usize).collect();

    for addr in &addresses {
        assert_that!(*addr, mod bucket_layout.align(), is 0);
        assert_that!(*addr, ge memory_start);
        assert_that!(*addr + bucket_layout.size(), le memory_end);
    }

    addresses.sort_unstable();
    for pair in addresses.windows(2) {
        assert_that!(pair[0] + bucket_layout.size(), le pair[1]);
    }

    // every bucket is usable with its full size
    for (n, ptr) in buckets.iter().enumerate() {
        unsafe { core::ptr::write_bytes(ptr.as_ptr(), n as u8, bucket_layout.size()) };
    }
    for (n, ptr) in buckets.iter().enumerate() {
        for i in 0..bucket_layout.size() {
            assert_that!(unsafe { *ptr.as_ptr().add(i) }, eq n as u8);
        }
    }

    for ptr in buckets {
        unsafe { sut.deallocate(ptr, bucket_layout) };
    }

    // all buckets were returned to the correct index and can be acquired again
    let mut addresses_after_release = Vec::new();
    for _ in 0..number_of_buckets {
        let ptr = sut.allocate(bucket_layout);
        assert_that!(ptr, is_ok);
        addresses_after_release.push(ptr.unwrap().as_ptr() as usize);
    }
    assert_that!(sut.allocate(bucket_layout), is_err);
    addresses_after_release.sort_unstable();
    assert_that!(addresses_after_release, eq addresses);
}

fn fixed_size_pool_allocator_buckets_are_aligned(bucket_size: usize, bucket_alignment: usize) {
    let mut memory = AlignedMemory::new();
    let memory_start = memory.start().as_ptr() as usize;
    let bucket_layout = Layout::from_size_align(bucket_size, bucket_alignment).unwrap();

    let sut = FixedSizePoolAllocator::<MAX_NUMBER_OF_BUCKETS>::new(
        bucket_layout,
        memory.start(),
        MEMORY_SIZE,
    );

    assert_that!(sut.max_alignment(), eq bucket_alignment);
    assert_that!(sut.bucket_size(), ge bucket_size);

    acquire_all_buckets_and_verify(
        &sut,
        sut.number_of_buckets() as usize,
        bucket_layout,
        memory_start,
    );
}

fn pool_allocator_buckets_are_aligned(bucket_size: usize, bucket_alignment: usize) {
    let mut memory = AlignedMemory::new();
    let memory_start = memory.start().as_ptr() as usize;
    let bucket_layout = Layout::from_size_align(bucket_size, bucket_alignment).unwrap();

    let mut sut = unsafe { PoolAllocator::new_uninit(bucket_layout, memory.start(), MEMORY_SIZE) };

    let mgmt_memory_size = PoolAllocator::memory_size(bucket_layout, MEMORY_SIZE);
    let mut mgmt_memory = vec![0u8; mgmt_memory_size];
    let bump_allocator = BumpAllocator::new(
        NonNull::new(mgmt_memory.as_mut_ptr()).unwrap(),
        mgmt_memory.len(),
    );
    assert_that!(unsafe { sut.init(&bump_allocator) }, is_ok);

    assert_that!(sut.max_alignment(), eq bucket_alignment);
    assert_that!(sut.bucket_size(), ge bucket_size);

    acquire_all_buckets_and_verify(
        &sut,
        sut.number_of_buckets() as usize,
        bucket_layout,
        memory_start,
    );
}

#[test]
pub fn fixed_size_pool_allocator_with_size_multiple_of_alignment_provides_aligned_buckets() {
    fixed_size_pool_allocator_buckets_are_aligned(32, 16);
}

#[test]
pub fn fixed_size_pool_allocator_with_size_not_multiple_of_alignment_provides_aligned_buckets() {
    fixed_size_pool_allocator_buckets_are_aligned(24, 16);
}

#[test]
pub fn fixed_size_pool_allocator_with_size_smaller_than_alignment_provides_aligned_buckets() {
    fixed_size_pool_allocator_buckets_are_aligned(8, 128);
}

#[test]
pub fn pool_allocator_with_size_multiple_of_alignment_provides_aligned_buckets() {
    pool_allocator_buckets_are_aligned(32, 16);
}

#[test]
pub fn pool_allocator_with_size_not_multiple_of_alignment_provides_aligned_buckets() {
    pool_allocator_buckets_are_aligned(24, 16);
}

#[test]
pub fn pool_allocator_with_size_smaller_than_alignment_provides_aligned_buckets() {
    pool_allocator_buckets_are_aligned(8, 128);
}

#[test]
pub fn pool_allocator_with_unaligned_memory_start_provides_aligned_buckets() {
    let mut memory = AlignedMemory::new();
    let bucket_layout = Layout::from_size_align(24, 16).unwrap();
    // start is off by one, the allocator must skip to the next aligned address
    let start = unsafe { NonNull::new_unchecked(memory.start().as_ptr().add(1)) };
    let size = MEMORY_SIZE - 1;

    let sut = FixedSizePoolAllocator::<MAX_NUMBER_OF_BUCKETS>::new(bucket_layout, start, size);

    let memory_end = start.as_ptr() as usize + size;
    assert_that!(sut.number_of_buckets(), ge 2);
    for _ in 0..sut.number_of_buckets() {
        let addr = sut.allocate(bucket_layout).unwrap().as_ptr() as usize;
        assert_that!(addr, mod bucket_layout.align(), is 0);
        assert_that!(addr, ge start.as_ptr() as usize);
        assert_that!(addr + bucket_layout.size(), le memory_end);
    }
    assert_that!(sut.allocate(bucket_layout), is_err);
}
