// Copyright (c) 2026 Contributors to the Eclipse Foundation
//
// See the NOTICE file(s) distributed with this work for additional
// information regarding copyright ownership.
//
// This program and the accompanying materials are made available under the
// terms of the Apache Software License 2.0 which is available at
// https://www.apache.org/licenses/LICENSE-2.0, or the MIT license
// which is available at https://opensource.org/licenses/MIT.
//
// SPDX-License-Identifier: Apache-2.0 OR MIT

//! Regression test: every `*OpenOrCreateError::SystemInFlux` must be translated into the
//! `SYSTEM_IN_FLUX` value of the corresponding C enum. The catch-all arm
//! `e => e.into_c_int()` called itself with the same value (endless recursion, stack overflow).

use core::ffi::c_int;

use iceoryx2::service::builder::event::{EventOpenError, EventOpenOrCreateError};
use iceoryx2::service::builder::publish_subscribe::{
    PublishSubscribeOpenError, PublishSubscribeOpenOrCreateError,
};
use iceoryx2::service::builder::request_response::RequestResponseOpenOrCreateError;

use super::IntoCInt;
use super::{
    iox2_event_open_or_create_error_e, iox2_pub_sub_open_or_create_error_e,
    iox2_request_response_open_or_create_error_e,
};

#[test]
fn pub_sub_open_or_create_error_system_in_flux_is_translated() {
    assert_eq!(
        PublishSubscribeOpenOrCreateError::SystemInFlux.into_c_int(),
        iox2_pub_sub_open_or_create_error_e::SYSTEM_IN_FLUX as c_int
    );
}

#[test]
fn event_open_or_create_error_system_in_flux_is_translated() {
    assert_eq!(
        EventOpenOrCreateError::SystemInFlux.into_c_int(),
        iox2_event_open_or_create_error_e::SYSTEM_IN_FLUX as c_int
    );
}

// control: the sibling that was always correct
#[test]
fn request_response_open_or_create_error_system_in_flux_is_translated() {
    assert_eq!(
        RequestResponseOpenOrCreateError::SystemInFlux.into_c_int(),
        iox2_request_response_open_or_create_error_e::SYSTEM_IN_FLUX as c_int
    );
}

// control: the nested variants are forwarded
#[test]
fn nested_open_errors_are_still_forwarded() {
    assert_eq!(
        PublishSubscribeOpenOrCreateError::PublishSubscribeOpenError(
            PublishSubscribeOpenError::DoesNotExist
        )
        .into_c_int(),
        iox2_pub_sub_open_or_create_error_e::O_DOES_NOT_EXIST as c_int
    );
    assert_eq!(
        EventOpenOrCreateError::EventOpenError(EventOpenError::DoesNotExist).into_c_int(),
        iox2_event_open_or_create_error_e::O_DOES_NOT_EXIST as c_int
    );
}
