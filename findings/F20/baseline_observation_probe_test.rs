use alloc::string::String;
use alloc::string::ToString;
use alloc::vec::Vec;

use iceoryx2::prelude::*;
use iceoryx2::testing::*;
use iceoryx2_bb_testing::assert_that;
use iceoryx2_bb_testing_macros::test;

fn walk(dir: &std::path::Path, needle: &str, out: &mut Vec<String>) {
    if let Ok(rd) = std::fs::read_dir(dir) {
        for e in rd.flatten() {
            let p = e.path();
            let s = p.to_string_lossy().to_string();
            if s.contains(needle) {
                out.push(s.clone());
            }
            if p.is_dir() {
                walk(&p, needle, out);
            }
        }
    }
}

fn leftovers(config: &Config, extra: &[String]) -> Vec<String> {
    let prefix = config.global.prefix.to_string();
    let mut out = Vec::new();
    let root = config.global.root_path().to_string();
    walk(std::path::Path::new(&root), &prefix, &mut out);
    walk(std::path::Path::new("/dev/shm"), &prefix, &mut out);
    for e in extra {
        walk(std::path::Path::new(&root), e, &mut out);
    }
    out.sort();
    out.dedup();
    out
}

#[test]
fn probe_node_first_publisher_last() {
    type S = ipc::Service;
    let config = generate_isolated_config();
    let node = NodeBuilder::new().config(&config).create::<S>().unwrap();
    let node_id = alloc::format!("{}", node.id().value());
    let service = node
        .service_builder(&generate_service_name())
        .publish_subscribe::<u64>()
        .create()
        .unwrap();
    let publisher = service.publisher_builder().create().unwrap();
    std::println!("before: {:#?}", leftovers(&config, &[node_id.clone()]));
    drop(node);
    drop(service);
    drop(publisher);
    let l = leftovers(&config, &[node_id.clone()]);
    std::println!("after: {:#?}", l);
    assert_that!(l.len(), eq 1);
}
